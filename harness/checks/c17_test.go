package checks

import (
	"bytes"
	"fmt"
	"testing"

	astits "github.com/asticode/go-astits"
	"pgregory.net/rapid"

	"verifharness/gen"
	"verifharness/obs"
	"verifharness/ref"
)

// C17 — Muxer tables come first, recur every period and at RAPs, and are always current.

type c17Stats struct {
	emissions      int
	versionChanges int
	periodic       int // emissions forced by the period (not the first, not RAP)
	rap            int
	autoPIDs       int
}

// analyzeC17 checks schedule, content and versioning of the tables in a trace.
func analyzeC17(tr *muxTrace) (string, c17Stats) {
	var st c17Stats
	period := tr.period
	if period < 1 {
		period = 1
	}
	seenTables := false
	count := 0 // successful WriteData calls since (and including) the last one that emitted tables
	prevVersion := -1
	changedSince := false
	for _, s := range tr.steps {
		if s.changed {
			changedSince = true
		}
		if s.kind == opPacket {
			continue
		}
		ps := mustPackets(s.out)
		firstPES := -1
		emittedBeforePES := false
		for i := 0; i < len(ps); i++ {
			p := ps[i]
			switch {
			case p.PID == 0:
				// an emission: PAT immediately followed by the PMT
				if i+1 >= len(ps) || ps[i+1].PID != pmtPID {
					return fmt.Sprintf("step %d %s: PAT packet not immediately followed by a PMT packet", s.idx, s.desc), st
				}
				patSec, err := ref.TablePacketSection(p.Payload)
				if err != nil {
					return fmt.Sprintf("step %d %s: PAT: %v", s.idx, s.desc, err), st
				}
				progs, ok := ref.DecodePAT(patSec)
				if !ok || len(progs) != 1 || progs[0][0] != 1 || progs[0][1] != ps[i+1].PID {
					return fmt.Sprintf("step %d %s: PAT programs %v, want program 1 -> PMT PID %#x", s.idx, s.desc, progs, ps[i+1].PID), st
				}
				pmtSec, err := ref.TablePacketSection(ps[i+1].Payload)
				if err != nil {
					return fmt.Sprintf("step %d %s: PMT: %v", s.idx, s.desc, err), st
				}
				h, ok := ref.ReadSectionHeader(pmtSec)
				if !ok {
					return fmt.Sprintf("step %d %s: PMT header unreadable", s.idx, s.desc), st
				}
				cfg := s.cfgBefore
				want := (&ref.Section{TableID: 2, Private: h.Private, Version: h.Version, CurrentNext: h.CurrentNext, Number: h.Number, Last: h.Last, PMT: expectedPMT(cfg)}).Encode()
				if !bytes.Equal(pmtSec, want) {
					pcr, _, es, _ := ref.DecodePMT(pmtSec)
					return fmt.Sprintf("step %d %s: PMT is not current.\n  written   %x\n  reference %x\n  written lists PCR PID %#x streams %v\n  configured: PCR PID %#x streams %s", s.idx, s.desc, pmtSec, want, pcr, es, cfg.pcr, cfgDesc(cfg)), st
				}
				for k, cs := range cfg.streams {
					if !cs.auto {
						continue
					}
					st.autoPIDs++
					if cs.pid <= 0x1f || cs.pid == pmtPID || cs.pid == 0x1fff {
						return fmt.Sprintf("step %d %s: automatically assigned PID %#x is reserved", s.idx, s.desc, cs.pid), st
					}
					for k2, o := range cfg.streams {
						if k2 != k && o.pid == cs.pid {
							return fmt.Sprintf("step %d %s: automatically assigned PID %#x is not unique", s.idx, s.desc, cs.pid), st
						}
					}
				}
				if prevVersion >= 0 {
					wantV := prevVersion
					if changedSince {
						wantV = (prevVersion + 1) % 32
					}
					if int(h.Version) != wantV {
						return fmt.Sprintf("step %d %s: PMT version_number %d after %d (content changed in between: %v)", s.idx, s.desc, h.Version, prevVersion, changedSince), st
					}
					if changedSince {
						st.versionChanges++
					}
				}
				prevVersion = int(h.Version)
				changedSince = false
				seenTables = true
				st.emissions++
				if firstPES < 0 {
					emittedBeforePES = true
				}
				i++
			case p.PID == pmtPID:
				return fmt.Sprintf("step %d %s: PMT packet without a PAT packet before it", s.idx, s.desc), st
			case s.kind == opData && p.PID == s.pid:
				if firstPES < 0 {
					firstPES = i
					if !seenTables {
						return fmt.Sprintf("step %d %s: a PES packet is written before any PAT/PMT", s.idx, s.desc), st
					}
				}
			}
		}
		if s.kind != opData {
			continue
		}
		if s.err != nil {
			if emittedBeforePES || (firstPES < 0 && len(ps) >= 2) {
				count = 0
			}
			continue
		}
		if s.forceRAP {
			if firstPES != 2 || ps[0].PID != 0 || ps[1].PID != pmtPID {
				return fmt.Sprintf("step %d %s: a unit with the random access indicator on the PCR PID %#x is not immediately preceded by PAT and PMT", s.idx, s.desc, s.cfgBefore.pcr), st
			}
			st.rap++
		}
		if emittedBeforePES {
			if count >= period && !s.forceRAP {
				st.periodic++
			}
			count = 1
		} else {
			count++
			if count > period {
				return fmt.Sprintf("step %d %s: %d WriteData calls since the last automatic table emission, retransmit period is %d", s.idx, s.desc, count, tr.period), st
			}
		}
	}
	return "", st
}

func cfgDesc(c *muxCfg) string {
	s := ""
	for _, x := range c.streams {
		s += fmt.Sprintf("{%#x type %#x descs %d} ", x.pid, uint8(x.stype), len(x.descs))
	}
	return s
}

func TestC17Random(t *testing.T) {
	rec := obs.NewRecorder("C17", "random", "rapid: histories of up to 200 valid Add/Remove/SetPCRPID/WriteTables/WriteData calls (WriteData- and configuration-change-heavy mixes), retransmit periods 1..50 and the default; on the writer's bytes: PAT+PMT before the first PES packet; a table emission no later than every <period> successful WriteData calls; PAT+PMT immediately before a unit with the random access indicator on the PCR PID; every PMT byte-identical to the reference encoding of the configuration of that moment (streams in insertion order, descriptors, PCR PID; version/current_next/section numbers taken from the packet), PAT = {program 1 -> PMT PID}; automatically assigned PIDs unique and not reserved; PMT version_number +1 mod 32 iff Add/Remove/SetPCRPID happened since the previous emission; non-trivial = >= 3 emissions with a version change and a periodic retransmission; distinct by history")
	defer rec.Flush()
	rapid.Check(t, func(t *rapid.T) {
		prof := muxProfile{maxOps: 120, manyData: gen.Bool(t, "manydata"), invalid: gen.Chance(t, 30, "invalid"), lowPIDs: true}
		if gen.Chance(t, 25, "long") {
			prof.maxOps, prof.minOps = 200, 60
		}
		if gen.Chance(t, 50, "smallperiod") {
			prof.period = rapid.IntRange(1, 6).Draw(t, "p")
		}
		period, setp, ops := genMuxHistory(t, prof)
		// keep payloads small: this property is about tables
		for i := range ops {
			if ops[i].kind == opData && len(ops[i].pes.Payload) > 400 {
				ops[i].pes.Payload = ops[i].pes.Payload[:1+len(ops[i].pes.Payload)%300]
			}
		}
		tr := runMuxHistory(period, setp, ops, &writerSpy{})
		v, st := analyzeC17(tr)
		if v != "" {
			t.Fatalf("%s\nhistory:\n%s", v, tr.render())
		}
		if st.versionChanges >= 32 {
			rec.Class("version_wrap(>=32_changes)")
		}
		if st.rap > 0 {
			rec.Class("rap_forced_emission")
		}
		if st.periodic > 0 {
			rec.Class("periodic_retransmission")
		}
		if st.autoPIDs > 0 {
			rec.Class("auto_pid_in_pmt")
		}
		rec.ClassN("emissions", int64(st.emissions))
		rec.Case(historySig(tr), st.emissions >= 3 && st.versionChanges >= 1 && st.periodic >= 1, func() interface{} { return tr.render() })
	})
}

// TestC17VersionWrap drives more than 32 content changes, each followed by an emission.
func TestC17VersionWrap(t *testing.T) {
	rec := obs.NewRecorder("C17", "version_wrap", "rapid: histories made of 33..80 rounds of {one or more configuration changes (Add/Remove/SetPCRPID), one emission (WriteTables or WriteData), optionally an emission without change}: the PMT version must step by exactly one per changed round, stay put otherwise, and wrap from 31 to 0; non-trivial = every case (>= 33 version changes); distinct by history")
	defer rec.Flush()
	rapid.Check(t, func(t *rapid.T) {
		rounds := rapid.IntRange(33, 80).Draw(t, "rounds")
		ops := []muxOp{{kind: opAdd, pid: 0x100, stype: astits.StreamTypeH264Video}, {kind: opSetPCR, sel: 0}}
		nextPID := uint16(0x200)
		for r := 0; r < rounds; r++ {
			n := 1 + gen.Uniform(t, 2, "nchanges")
			for c := 0; c < n; c++ {
				switch gen.Uniform(t, 3, "change") {
				case 0:
					ops = append(ops, muxOp{kind: opAdd, pid: nextPID, auto: gen.Bool(t, "auto"), stype: astits.StreamTypeAACAudio})
					nextPID++
				case 1:
					// remove the most recent stream but never the first (the PCR PID)
					ops = append(ops, muxOp{kind: opRemove, sel: -1})
				default:
					ops = append(ops, muxOp{kind: opSetPCR, sel: 0})
				}
			}
			emit := func() {
				if gen.Bool(t, "emitkind") {
					ops = append(ops, muxOp{kind: opTables})
				} else {
					pts := uint64(r)
					ops = append(ops, muxOp{kind: opData, sel: 0, pes: &ref.PES{StreamID: 0xe0, Length: -1, Opt: &ref.PESOpt{PTS: &pts}, Payload: []byte{1, 2, 3}}, af: &ref.AF{RAI: true}})
				}
			}
			emit()
			if gen.Chance(t, 30, "again") {
				emit()
			}
		}
		// resolve the "remove the most recent" placeholders: sel -1 means last stream unless only one is left
		tr := runMuxHistoryWithRemoveLast(1000, ops)
		v, st := analyzeC17(tr)
		if v != "" {
			t.Fatalf("%s\nhistory:\n%s", v, tr.render())
		}
		if st.versionChanges < 32 {
			t.Fatalf("harness: only %d version changes in %d rounds\n%s", st.versionChanges, rounds, tr.render())
		}
		rec.Case(historySig(tr), true, func() interface{} {
			return map[string]interface{}{"rounds": rounds, "version_changes": st.versionChanges, "emissions": st.emissions}
		})
	})
}

// runMuxHistoryWithRemoveLast rewrites Remove ops with sel -1 into "remove the last stream if more than one is left,
// else add one", then runs the history.
func runMuxHistoryWithRemoveLast(period int, ops []muxOp) *muxTrace {
	n := 0
	pid := uint16(0x600)
	for i := range ops {
		switch ops[i].kind {
		case opAdd:
			n++
		case opRemove:
			if ops[i].sel == -1 {
				if n > 1 {
					ops[i].sel = n - 1
					n--
				} else {
					ops[i] = muxOp{kind: opAdd, pid: pid, stype: astits.StreamTypeMetadata}
					pid++
					n++
				}
			}
		}
	}
	return runMuxHistory(period, true, ops, &writerSpy{})
}

// TestC17Exhaustive enumerates every history up to a given length over a small operation alphabet.
func TestC17Exhaustive(t *testing.T) {
	maxLen := obs.Scale(5, 6)
	rec := obs.NewRecorder("C17", "exhaustive", fmt.Sprintf("bounded-exhaustive: every history of length 1..%d over the alphabet {Add explicit, Add automatic, Remove first, Remove last, SetPCRPID(first), SetPCRPID(unknown), WriteTables, WriteData(first stream), WriteData(first stream, random access indicator), WriteData(last stream)} for retransmit periods 1, 2 and 3; same oracle as the random unit; every history is distinct by construction", maxLen))
	defer rec.Flush()
	shard, nshards := obs.Shard()
	pts := uint64(90000)
	mk := func(code int, nextPID *uint16) muxOp {
		switch code {
		case 0:
			*nextPID++
			return muxOp{kind: opAdd, pid: *nextPID, stype: astits.StreamTypeH264Video}
		case 1:
			return muxOp{kind: opAdd, auto: true, stype: astits.StreamTypeAACAudio}
		case 2:
			return muxOp{kind: opRemove, sel: 0}
		case 3:
			return muxOp{kind: opRemove, sel: 7} // resolved modulo the stream count; 7 mod n is the last for n in {1,2,4,8}, another one otherwise
		case 4:
			return muxOp{kind: opSetPCR, sel: 0}
		case 5:
			return muxOp{kind: opSetPCR, bad: true, badPID: 0x1234}
		case 6:
			return muxOp{kind: opTables}
		case 7:
			return muxOp{kind: opData, sel: 0, pes: &ref.PES{StreamID: 0xe0, Length: -1, Opt: &ref.PESOpt{PTS: &pts}, Payload: []byte{9, 9, 9}}}
		case 8:
			return muxOp{kind: opData, sel: 0, pes: &ref.PES{StreamID: 0xe0, Length: -1, Opt: &ref.PESOpt{PTS: &pts}, Payload: []byte{7}}, af: &ref.AF{RAI: true, PCR: &ref.PCR{Base: 1}}}
		default:
			return muxOp{kind: opData, sel: 7, pes: &ref.PES{StreamID: 0xc0, Length: -1, Opt: &ref.PESOpt{PTS: &pts}, Payload: []byte{5, 5}}}
		}
	}
	const alpha = 10
	total := int64(0)
	idx := 0
	for l := 1; l <= maxLen; l++ {
		n := 1
		for i := 0; i < l; i++ {
			n *= alpha
		}
		for code := 0; code < n; code++ {
			idx++
			if idx%nshards != shard {
				continue
			}
			for _, period := range []int{1, 2, 3} {
				nextPID := uint16(0x0ff)
				ops := make([]muxOp, l)
				c := code
				for i := 0; i < l; i++ {
					ops[i] = mk(c%alpha, &nextPID)
					c /= alpha
				}
				tr := runMuxHistory(period, true, ops, &writerSpy{})
				if v, _ := analyzeC17(tr); v != "" {
					t.Fatalf("%s\nhistory:\n%s", v, tr.render())
				}
				if v := analyzeC05(tr); v != "" {
					t.Fatalf("(continuity) %s\nhistory:\n%s", v, tr.render())
				}
				total++
				if total == 4242 {
					rec.Sample(tr.render())
				}
			}
		}
	}
	rec.Enumerated(total)
	rec.SetExhaustive(true)
}
