package checks

import (
	"bytes"
	"fmt"
	"testing"

	astits "github.com/asticode/go-astits"
	"pgregory.net/rapid"

	"verifharness/gen"
	"verifharness/obs"
	"verifharness/ref"
)

// C06 — duplicate packets are harmless; packet loss never yields spliced or foreign data.

// perPIDCanon demuxes raw packets and returns the canonical renderings per PID plus the PIDs that saw errors.
func perPIDCanon(raw [][]byte) (out map[uint16][]string, items map[uint16][]*astits.DemuxerData, nerr int, ended bool) {
	var b []byte
	for _, r := range raw {
		b = append(b, r...)
	}
	res := demuxAll(b)
	out = map[uint16][]string{}
	items = map[uint16][]*astits.DemuxerData{}
	for _, it := range res.items {
		out[it.PID] = append(out[it.PID], obs.Canon(it))
		items[it.PID] = append(items[it.PID], it)
	}
	return out, items, len(res.errs), res.ended
}

func isSubsequence(sub, full []string) bool {
	j := 0
	for _, s := range sub {
		for j < len(full) && full[j] != s {
			j++
		}
		if j == len(full) {
			return false
		}
		j++
	}
	return true
}

func equalStrings(a, b []string) bool {
	if len(a) != len(b) {
		return false
	}
	for i := range a {
		if a[i] != b[i] {
			return false
		}
	}
	return true
}

type c06Ctx struct {
	m       *streamModel
	raw     [][]byte
	clean   map[uint16][]string
	isPSI   map[uint16]bool
	rec     *obs.Recorder
	unitOf  []*unitModel
	itemsOf map[*unitModel][]string // canonical items of each unit (from the clean run)
}

func newC06Ctx(m *streamModel, rec *obs.Recorder) (*c06Ctx, string) {
	c := &c06Ctx{m: m, rec: rec, isPSI: map[uint16]bool{}, itemsOf: map[*unitModel][]string{}}
	for _, sp := range m.packets {
		c.raw = append(c.raw, sp.raw)
		c.unitOf = append(c.unitOf, sp.unit)
	}
	clean, _, nerr, ended := perPIDCanon(c.raw)
	if nerr != 0 || !ended {
		return nil, "clean stream produces errors"
	}
	c.clean = clean
	for pid, us := range m.perPID {
		k := 0
		for _, u := range us {
			if u.kind == unitPSI {
				c.isPSI[pid] = true
			}
			for range u.expect {
				if k >= len(clean[pid]) {
					return nil, fmt.Sprintf("clean stream delivers %d items on PID %#x, model has more", len(clean[pid]), pid)
				}
				c.itemsOf[u] = append(c.itemsOf[u], clean[pid][k])
				k++
			}
		}
		if k != len(clean[pid]) {
			return nil, fmt.Sprintf("clean stream delivers %d items on PID %#x, model has %d", len(clean[pid]), pid, k)
		}
	}
	return c, ""
}

// checkDuplicate judges the output of a stream with duplicated packets.
func (c *c06Ctx) checkDuplicate(faulted [][]byte, what string) string {
	got, _, nerr, ended := perPIDCanon(faulted)
	if !ended {
		return what + ": no ErrNoMorePackets"
	}
	for pid, want := range c.clean {
		g := got[pid]
		if !c.isPSI[pid] {
			if !equalStrings(g, want) {
				return fmt.Sprintf("%s: output on PES PID %#x changed: %d items delivered, %d without the duplicate%s", what, pid, len(g), len(want), firstDiff(g, want))
			}
			continue
		}
		if !isSubsequence(want, g) {
			return fmt.Sprintf("%s: data on PSI PID %#x was removed or altered by the duplicate: %d items, %d without it", what, pid, len(g), len(want))
		}
		known := map[string]bool{}
		for _, w := range want {
			known[w] = true
		}
		for _, x := range g {
			if !known[x] {
				return fmt.Sprintf("%s: an item that the clean stream does not deliver appeared on PSI PID %#x: %s", what, pid, obs.Trunc(x, 300))
			}
		}
	}
	for pid, g := range got {
		if _, ok := c.clean[pid]; !ok && len(g) > 0 {
			return fmt.Sprintf("%s: items appeared on PID %#x", what, pid)
		}
	}
	_ = nerr // errors are tolerated on PSI PIDs; on PES PIDs equality above already fails if a unit is dropped
	return ""
}

func firstDiff(g, w []string) string {
	for i := 0; i < len(g) && i < len(w); i++ {
		if g[i] != w[i] {
			return fmt.Sprintf("; item %d: %s", i, obs.Diff(g[i], w[i]))
		}
	}
	return ""
}

// checkLoss judges the output after deleting the packets whose indices are in lost.
func (c *c06Ctx) checkLoss(faulted [][]byte, lost map[int]bool, what string) string {
	got, gotItems, _, ended := perPIDCanon(faulted)
	if !ended {
		return what + ": no ErrNoMorePackets"
	}
	// units that lost a packet, and per PID the units holding the last surviving packet before each gap
	damaged := map[*unitModel]bool{}
	lossPID := map[uint16]bool{}
	lastSurvivor := map[uint16]*unitModel{}
	mayLose := map[*unitModel]bool{}
	for i, u := range c.unitOf {
		if u == nil {
			continue
		}
		if lost[i] {
			damaged[u] = true
			lossPID[u.pid] = true
			if ls := lastSurvivor[u.pid]; ls != nil {
				mayLose[ls] = true
			}
			continue
		}
		lastSurvivor[u.pid] = u
	}
	patLost := lossPID[0]
	for pid, want := range c.clean {
		g := got[pid]
		if !lossPID[pid] {
			if patLost && c.m.pmtPIDs[pid] {
				if !isSubsequence(g, want) {
					return fmt.Sprintf("%s: PMT PID %#x (PAT packets were lost): delivered items are not a subsequence of the loss-free output", what, pid)
				}
				continue
			}
			if !equalStrings(g, want) {
				return fmt.Sprintf("%s: PID %#x lost no packet but its output changed (%d items, %d loss-free)%s", what, pid, len(g), len(want), firstDiff(g, want))
			}
			continue
		}
		// every delivered item must be an unmodified item of the loss-free output, in order
		if !isSubsequence(g, want) {
			known := map[string]bool{}
			for _, w := range want {
				known[w] = true
			}
			for k, x := range g {
				if !known[x] {
					it := gotItems[pid][k]
					if it.FirstPacket != nil && !it.FirstPacket.Header.PayloadUnitStartIndicator && it.PES != nil {
						if c.rec.Known("K1-fragment-delivered-as-PES", "after packet loss a unit fragment that begins 00 00 01 is delivered as a PES decoded from elementary stream bytes") {
							return ""
						}
					}
					return fmt.Sprintf("%s: PID %#x delivered an item that is not in the loss-free output (spliced or foreign data): %s", what, pid, obs.Trunc(x, 500))
				}
			}
			return fmt.Sprintf("%s: PID %#x: delivered items are reordered or duplicated with respect to the loss-free output", what, pid)
		}
		if patLost && c.m.pmtPIDs[pid] {
			continue // without its PAT a PMT PID is not recognised: nothing more can be demanded
		}
		// units that lost nothing and do not precede a gap must all be there: count per canonical value
		need := map[string]int{}
		for _, u := range c.m.perPID[pid] {
			if damaged[u] || mayLose[u] {
				continue
			}
			for _, s := range c.itemsOf[u] {
				need[s]++
			}
		}
		have := map[string]int{}
		for _, x := range g {
			have[x]++
		}
		for s, n := range need {
			if have[s] < n {
				return fmt.Sprintf("%s: PID %#x: a unit that lost no packet and does not precede a gap is missing (%d of %d copies delivered): %s", what, pid, have[s], n, obs.Trunc(s, 300))
			}
		}
	}
	for pid, g := range got {
		if _, ok := c.clean[pid]; !ok && len(g) > 0 {
			// a PID that delivers nothing loss-free (private / near-miss units only): the same K1 shape applies
			k1 := lossPID[pid]
			for _, it := range gotItems[pid] {
				if it.FirstPacket == nil || it.FirstPacket.Header.PayloadUnitStartIndicator || it.PES == nil {
					k1 = false
				}
			}
			if k1 && c.rec.Known("K1-fragment-delivered-as-PES", "after packet loss a unit fragment that begins 00 00 01 is delivered as a PES decoded from elementary stream bytes") {
				return ""
			}
			return fmt.Sprintf("%s: items appeared on PID %#x", what, pid)
		}
	}
	return ""
}

// laterPayloadOnPID reports whether a payload packet of the same PID follows position i among the surviving packets.
func (c *c06Ctx) laterPayloadOnPID(i int, lost map[int]bool) bool {
	pid := c.m.packets[i].p.PID
	for j := i + 1; j < len(c.m.packets); j++ {
		if !lost[j] && c.m.packets[j].p.PID == pid && c.m.packets[j].p.HasPayload {
			return true
		}
	}
	return false
}

func c06Stream(t *rapid.T) *streamModel {
	o := defaultStreamOpts()
	o.maxPESPIDs, o.maxPMTPIDs, o.maxUnits, o.maxPESLen, o.smallPSI = 3, 1, 4, 1400, true
	o.noise = gen.Bool(t, "noise")
	o.emptyInUnit = true
	return drawStream(t, o)
}

func without(raw [][]byte, lost map[int]bool) [][]byte {
	var o [][]byte
	for i, r := range raw {
		if !lost[i] {
			o = append(o, r)
		}
	}
	return o
}

func TestC06Single(t *testing.T) {
	rec := obs.NewRecorder("C06", "single_faults", "rapid: well-formed streams (reference multiplexer; PES PIDs, PAT, a PMT PID, SI PIDs; units of 1..8 packets) x EVERY single-packet duplication position (copy right after the original and after up to 3 packets of other PIDs) x EVERY single-packet deletion position that is followed by a later payload packet of the PID x the same positions marked transport_error_indicator; oracle: duplicate = PES PIDs identical, PSI PIDs nothing removed/altered, extra items only re-deliveries; loss = every delivered item is an unmodified item of the loss-free output in order, units that lost nothing and do not precede the gap are all delivered, other PIDs identical (PMT PIDs: subsequence when the PAT lost a packet); TEI-marked == deleted; non-trivial = every stream (hundreds of fault positions each); distinct by stream bytes")
	defer rec.Flush()
	rapid.Check(t, func(t *rapid.T) {
		m := c06Stream(t)
		if len(m.packets) > 90 {
			t.Skip("stream too long for an exhaustive position sweep")
		}
		c, bad := newC06Ctx(m, rec)
		if bad != "" {
			t.Fatalf("harness: %s\n%s", bad, m.describe())
		}
		ndup, ndel := 0, 0
		for i, sp := range m.packets {
			if sp.unit == nil {
				continue
			}
			// duplicate right after, and after up to 3 following packets of other PIDs
			for gap := 0; gap <= 3; gap++ {
				j := i + gap
				if j >= len(m.packets) {
					break
				}
				ok := true
				for k := i + 1; k <= j; k++ {
					if m.packets[k].p.PID == sp.p.PID {
						ok = false
					}
				}
				if !ok {
					break
				}
				f := append(append(append([][]byte{}, c.raw[:j+1]...), c.raw[i]), c.raw[j+1:]...)
				if v := c.checkDuplicate(f, fmt.Sprintf("packet %d (PID %#x, packet %d of its unit of %d) duplicated %d packets later", i, sp.p.PID, sp.idx, len(sp.unit.packets), gap)); v != "" {
					t.Fatalf("%s\nstream: %s\norder: %s", v, m.describe(), m.order())
				}
				ndup++
			}
			lost := map[int]bool{i: true}
			if !c.laterPayloadOnPID(i, lost) {
				continue
			}
			what := fmt.Sprintf("packet %d (PID %#x, packet %d of its unit of %d) lost", i, sp.p.PID, sp.idx, len(sp.unit.packets))
			del := without(c.raw, lost)
			if v := c.checkLoss(del, lost, what); v != "" {
				t.Fatalf("%s\nstream: %s\norder: %s", v, m.describe(), m.order())
			}
			ndel++
			// transport_error_indicator == loss
			tei := append([][]byte{}, c.raw...)
			marked := append([]byte{}, c.raw[i]...)
			marked[1] |= 0x80
			tei[i] = marked
			a, _, _, _ := perPIDCanon(del)
			b, _, _, _ := perPIDCanon(tei)
			if obs.Canon(a) != obs.Canon(b) {
				t.Fatalf("%s: marking the packet with transport_error_indicator gives a different output than deleting it\nstream: %s", what, m.describe())
			}
		}
		rec.ClassN("duplication_positions", int64(ndup))
		rec.ClassN("deletion_positions", int64(ndel))
		h := obs.NewHasher()
		h.Bytes(m.bytes())
		rec.Case(h.Sum(), ndel > 0, func() interface{} {
			return map[string]interface{}{"stream": m.describe(), "duplications": ndup, "deletions": ndel}
		})
	})
}

func TestC06Multi(t *testing.T) {
	rec := obs.NewRecorder("C06", "multi_faults", "rapid: the same streams with random multi-fault patterns: several bursts of 1..15 lost packets per PID (each followed by a later payload packet of the PID), and sets of duplicated packets (first/middle/last of a unit, single-packet units); same oracles; a burst of 15 whose survivors on both sides carry identical payload bytes is indistinguishable from a permitted duplicate and is skipped (counted); non-trivial = a burst >= 2 or >= 2 faults; distinct by stream bytes + fault pattern")
	defer rec.Flush()
	rapid.Check(t, func(t *rapid.T) {
		o := defaultStreamOpts()
		o.maxPESPIDs, o.maxPMTPIDs, o.maxUnits, o.maxPESLen, o.smallPSI, o.noise = 2, 1, 6, 5000, true, false
		m := drawStream(t, o)
		c, bad := newC06Ctx(m, rec)
		if bad != "" {
			t.Fatalf("harness: %s\n%s", bad, m.describe())
		}
		h := obs.NewHasher()
		h.Bytes(m.bytes())
		if gen.Bool(t, "dupmode") {
			// duplicates
			n := rapid.IntRange(1, 4).Draw(t, "ndups")
			pos := map[int]bool{}
			for k := 0; k < n; k++ {
				i := rapid.IntRange(0, len(m.packets)-1).Draw(t, "duppos")
				if m.packets[i].unit != nil {
					pos[i] = true
				}
			}
			var f [][]byte
			for i, r := range c.raw {
				f = append(f, r)
				if pos[i] {
					f = append(f, r)
					h.Int(int64(i))
				}
			}
			if v := c.checkDuplicate(f, fmt.Sprintf("packets %v duplicated", keys(pos))); v != "" {
				t.Fatalf("%s\nstream: %s\norder: %s", v, m.describe(), m.order())
			}
			rec.Class("duplicates")
			rec.Case(h.Sum(), len(pos) >= 2, func() interface{} {
				return map[string]interface{}{"stream": m.describe(), "duplicated_packets": keys(pos)}
			})
			return
		}
		nb := rapid.IntRange(1, 3).Draw(t, "nbursts")
		lost := map[int]bool{}
		maxBurst := 0
		for k := 0; k < nb; k++ {
			start := rapid.IntRange(0, len(m.packets)-1).Draw(t, "burststart")
			if m.packets[start].unit == nil {
				continue
			}
			pid := m.packets[start].p.PID
			l := rapid.IntRange(1, 15).Draw(t, "burstlen")
			if gen.Chance(t, 30, "b15") {
				l = 15
			}
			// the burst takes l consecutive payload packets of that PID
			cnt := 0
			for j := start; j < len(m.packets) && cnt < l; j++ {
				if m.packets[j].p.PID == pid && m.packets[j].p.HasPayload && m.packets[j].unit != nil {
					lost[j] = true
					cnt++
				}
			}
			if cnt > maxBurst {
				maxBurst = cnt
			}
		}
		// a gap at the very end of a PID cannot be revealed by the counter: give those packets back
		tail := map[uint16]bool{}
		for i := len(m.packets) - 1; i >= 0; i-- {
			sp := m.packets[i]
			if sp.unit == nil || !sp.p.HasPayload || tail[sp.p.PID] {
				continue
			}
			if lost[i] {
				delete(lost, i)
			} else {
				tail[sp.p.PID] = true
			}
		}
		// per PID: no run of >= 16 lost packets, and every gap is followed by a surviving payload packet
		okPattern := len(lost) > 0
		run := map[uint16]int{}
		var prevSurvivor = map[uint16]int{}
		for i, sp := range m.packets {
			if sp.unit == nil || !sp.p.HasPayload {
				continue
			}
			pid := sp.p.PID
			if lost[i] {
				run[pid]++
				if run[pid] >= 16 {
					okPattern = false
				}
				continue
			}
			if run[pid] == 15 {
				if ps, ok := prevSurvivor[pid]; ok && bytes.Equal(m.packets[ps].p.Payload, sp.p.Payload) {
					rec.Excluded("burst_of_15_between_identical_payloads(=permitted_duplicate)")
					okPattern = false
				}
			}
			run[pid] = 0
			prevSurvivor[pid] = i
		}
		for pid, r := range run {
			if r > 0 {
				_ = pid
				okPattern = false // a gap at the end of a PID cannot be revealed by the counter
			}
		}
		if !okPattern {
			rec.Class("pattern_outside_the_property(skipped)")
			return
		}
		for i := range lost {
			h.Int(int64(i))
		}
		if v := c.checkLoss(without(c.raw, lost), lost, fmt.Sprintf("packets %v lost", keys(lost))); v != "" {
			t.Fatalf("%s\nstream: %s\norder: %s", v, m.describe(), m.order())
		}
		rec.Class("bursts")
		if maxBurst == 15 {
			rec.Class("burst_of_15")
		}
		rec.Case(h.Sum(), maxBurst >= 2 || len(lost) >= 2, func() interface{} {
			return map[string]interface{}{"stream": m.describe(), "lost_packets": keys(lost)}
		})
	})
}

func keys(m map[int]bool) []int {
	var k []int
	for i := range m {
		k = append(k, i)
	}
	for i := 1; i < len(k); i++ {
		for j := i; j > 0 && k[j] < k[j-1]; j-- {
			k[j], k[j-1] = k[j-1], k[j]
		}
	}
	return k
}

// TestC06KnownK1 probes the recorded finding K1 with a fixed input: the first packet of a PES unit is lost and the
// second packet's payload begins with 00 00 01.
func TestC06KnownK1(t *testing.T) {
	rec := obs.NewRecorder("C06", "known_finding_probe", "fixed input probing finding K1: a PES unit of two packets whose second packet's payload begins 00 00 01 loses its first packet; the property demands that nothing foreign is delivered")
	defer rec.Flush()
	pts := uint64(1000)
	first := &ref.PES{StreamID: 0xe0, Length: 0, Opt: &ref.PESOpt{PTS: &pts}, Payload: append(bytes.Repeat([]byte{0xaa}, 170), 0x00, 0x00, 0x01, 0xe0, 0x00, 0x00, 0x80, 0x00, 0x00, 0x11, 0x22, 0x33)}
	enc := first.Encode()
	cc := uint8(0)
	pk := ref.PacketizeUnit(0x100, enc, &cc, ref.PktOpts{Sizes: []int{184, len(enc) - 184}})
	next := &ref.PES{StreamID: 0xe0, Length: 0, Opt: &ref.PESOpt{PTS: &pts}, Payload: []byte{1, 2, 3}}
	pk = append(pk, ref.PacketizeUnit(0x100, next.Encode(), &cc, ref.PktOpts{})...)
	var raw [][]byte
	for _, p := range pk {
		raw = append(raw, p.MustEncode())
	}
	clean, _, _, _ := perPIDCanon(raw)
	got, items, _, _ := perPIDCanon(raw[1:])
	rec.Evals(1)
	rec.Distinct(1)
	rec.Sample(map[string]interface{}{"second_packet_payload_head": fmt.Sprintf("%x", pk[1].Payload[:12])})
	known := map[string]bool{}
	for _, s := range clean[0x100] {
		known[s] = true
	}
	for k, s := range got[0x100] {
		if known[s] {
			continue
		}
		it := items[0x100][k]
		if it.PES != nil && !it.FirstPacket.Header.PayloadUnitStartIndicator {
			if rec.Known("K1-fragment-delivered-as-PES", "after packet loss a unit fragment that begins 00 00 01 is delivered as a PES decoded from elementary stream bytes") {
				return
			}
		}
		t.Fatalf("after the loss of the first packet of a unit an item that is not in the loss-free output is delivered: %s", obs.Trunc(s, 400))
	}
}

// TestC06Abstract enumerates short packet sequences over an abstract alphabet and checks the metamorphic relations of
// the property on each: transport_error_indicator == deletion, adaptation-only insertion == no change, duplicate
// insertion == no change.
func TestC06Abstract(t *testing.T) {
	maxLen := obs.Scale(3, 4)
	rec := obs.NewRecorder("C06", "abstract_sequences", fmt.Sprintf("bounded-exhaustive: every sequence of 1..%d packets over the alphabet {PID a, PID b} x {continuity counter repeated, +1, +3 (gap)} x {payload_unit_start 0/1} x {payload, adaptation-field-only} (24 symbols; PUSI packets start a PES, others continue it; every payload is unique), followed by a closing PES start on both PIDs; relations checked at every position: marking a packet with transport_error_indicator == deleting it; inserting an adaptation-only packet == no change; inserting an exact duplicate of a payload packet right after it == no change; and no run may panic or report an error; distinct by construction", maxLen))
	defer rec.Flush()
	shard, nshards := obs.Shard()
	type sym struct {
		pid    int
		delta  int // 0 repeat, 1 next, 3 gap
		pusi   bool
		afonly bool
	}
	var alpha []sym
	for pid := 0; pid < 2; pid++ {
		for _, d := range []int{0, 1, 3} {
			for _, pusi := range []bool{false, true} {
				for _, afo := range []bool{false, true} {
					alpha = append(alpha, sym{pid, d, pusi, afo})
				}
			}
		}
	}
	pids := []uint16{0x100, 0x101}
	build := func(seq []sym) [][]byte {
		cc := []uint8{5, 9}
		var raw [][]byte
		serial := byte(0)
		emit := func(s sym) {
			serial++
			pid := pids[s.pid]
			if s.afonly {
				af := &ref.AF{Stuffing: 182}
				raw = append(raw, (&ref.TSPacket{PID: pid, HasAF: true, CC: cc[s.pid], AF: af}).MustEncode())
				return
			}
			cc[s.pid] = (cc[s.pid] + uint8(s.delta)) & 0xf
			var payload []byte
			if s.pusi {
				pts := uint64(serial)
				payload = (&ref.PES{StreamID: 0xe0, Length: 0, Opt: &ref.PESOpt{PTS: &pts}, Payload: bytes.Repeat([]byte{serial}, 20)}).Encode()
			} else {
				payload = bytes.Repeat([]byte{0x80 | serial}, 30)
			}
			af := &ref.AF{Stuffing: 184 - len(payload) - 2}
			raw = append(raw, (&ref.TSPacket{PID: pid, PUSI: s.pusi, HasAF: true, HasPayload: true, CC: cc[s.pid], AF: af, Payload: payload}).MustEncode())
		}
		for _, s := range seq {
			emit(s)
		}
		// closing unit starts so that pending units are flushed by a PUSI and not only by the end of the stream
		emit(sym{0, 1, true, false})
		emit(sym{1, 1, true, false})
		return raw
	}
	run := func(raw [][]byte) string {
		out, _, nerr, ended := perPIDCanon(raw)
		if nerr != 0 || !ended {
			return fmt.Sprintf("ERR(%d,%v)", nerr, ended)
		}
		return obs.Canon(out)
	}
	total := int64(0)
	idx := 0
	var walk func(seq []sym)
	check := func(seq []sym) {
		raw := build(seq)
		base := run(raw)
		if len(base) > 3 && base[:3] == "ERR" {
			t.Fatalf("sequence %+v: errors on PES PIDs: %s", seq, base)
		}
		for i := range seq {
			// TEI == deletion
			del := append(append([][]byte{}, raw[:i]...), raw[i+1:]...)
			tei := append([][]byte{}, raw...)
			m := append([]byte{}, raw[i]...)
			m[1] |= 0x80
			tei[i] = m
			if a, b := run(del), run(tei); a != b {
				t.Fatalf("sequence %+v: marking packet %d with transport_error_indicator differs from deleting it", seq, i)
			}
			// adaptation-only insertion == no change
			afo := (&ref.TSPacket{PID: pids[seq[i].pid], HasAF: true, CC: raw[i][3] & 0xf, AF: &ref.AF{Stuffing: 182}}).MustEncode()
			ins := append(append(append([][]byte{}, raw[:i+1]...), afo), raw[i+1:]...)
			if run(ins) != base {
				t.Fatalf("sequence %+v: inserting an adaptation-field-only packet after packet %d changes the output", seq, i)
			}
			// duplicate insertion == no change
			if !seq[i].afonly {
				dup := append(append(append([][]byte{}, raw[:i+1]...), raw[i]), raw[i+1:]...)
				if run(dup) != base {
					t.Fatalf("sequence %+v: duplicating packet %d changes the output", seq, i)
				}
			}
		}
		total++
	}
	walk = func(seq []sym) {
		if len(seq) > 0 {
			idx++
			if idx%nshards == shard {
				check(seq)
			}
		}
		if len(seq) == maxLen {
			return
		}
		for _, s := range alpha {
			walk(append(seq[:len(seq):len(seq)], s))
		}
	}
	walk(nil)
	rec.Enumerated(total)
	rec.SetExhaustive(true)
	rec.Sample(map[string]interface{}{"alphabet": len(alpha), "max_length": maxLen, "sequences_in_this_run": total})
}
