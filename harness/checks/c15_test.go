package checks

import (
	"bytes"
	"fmt"
	"testing"
	"time"

	astits "github.com/asticode/go-astits"

	"verifharness/obs"
	"verifharness/ref"
)

// C15 — DVB date/time and BCD durations convert exactly over their whole range.

const (
	mjdMin = 15079 // 1900-03-01
	mjdMax = 65535 // 2038-04-22
)

// TestRefDVB validates the reference calendar arithmetic against the standard library and the Annex C example.
func TestRefDVB(t *testing.T) {
	if y, m, d := ref.CivilFromMJD(49273); y != 1993 || m != 10 || d != 13 {
		t.Fatalf("Annex C example: MJD 49273 -> %d-%d-%d, want 1993-10-13", y, m, d)
	}
	if y, m, d := ref.CivilFromMJD(mjdMin); y != 1900 || m != 3 || d != 1 {
		t.Fatalf("MJD 15079 -> %d-%d-%d", y, m, d)
	}
	if y, m, d := ref.CivilFromMJD(mjdMax); y != 2038 || m != 4 || d != 22 {
		t.Fatalf("MJD 65535 -> %d-%d-%d", y, m, d)
	}
	base := time.Date(1858, 11, 17, 0, 0, 0, 0, time.UTC)
	for mjd := 0; mjd <= 70000; mjd++ {
		y, m, d := ref.CivilFromMJD(mjd)
		tt := base.AddDate(0, 0, mjd)
		if tt.Year() != y || int(tt.Month()) != m || tt.Day() != d {
			t.Fatalf("MJD %d: reference %d-%d-%d, time package %v", mjd, y, m, d, tt)
		}
		if back := ref.MJDFromCivil(y, m, d); back != mjd {
			t.Fatalf("MJDFromCivil(%d,%d,%d) = %d, want %d", y, m, d, back, mjd)
		}
	}
}

func todGrid() []int {
	g := []int{0, 1, 59, 60, 61, 3599, 3600, 3601, 43199, 43200, 45900, 86399, 86340, 82800, 35999, 36000, 9*3600 + 59*60 + 59, 10 * 3600, 19*3600 + 59*60 + 59, 20 * 3600}
	for s := 1234; s < 86400; s += 7919 {
		g = append(g, s)
	}
	return g
}

func TestC15DecodeTime(t *testing.T) {
	rec := obs.NewRecorder("C15", "decode_time", "parseDVBTime: all 50457 MJD values 15079..65535 x a grid of times of day, each decoded from a fresh slice and from one buffer reused for every call, plus all 86400 times of day on four dates; oracle = integer calendar arithmetic (distinct by construction)")
	defer rec.Flush()
	grid := todGrid()
	// scratch: the caller's buffer when it is reused from one call to the next (nil = a fresh slice for every call)
	oneIn := func(mjd, sod int, scratch []byte) string {
		h, mi, s := sod/3600, sod/60%60, sod%60
		b := []byte{byte(mjd >> 8), byte(mjd), ref.BCD2(h), ref.BCD2(mi), ref.BCD2(s)}
		if scratch != nil {
			copy(scratch, b)
			b = scratch[:5]
		}
		got, err := astits.VerifParseDVBTime(b)
		if err != nil {
			return fmt.Sprintf("parseDVBTime(%x) error %v", b, err)
		}
		y, mo, d := ref.CivilFromMJD(mjd)
		if got.Unix() != ref.UnixFromDVB(mjd, sod) || got.Year() != y || int(got.Month()) != mo || got.Day() != d ||
			got.Hour() != h || got.Minute() != mi || got.Second() != s || got.Nanosecond() != 0 {
			return fmt.Sprintf("parseDVBTime(%x) = %v, want %04d-%02d-%02d %02d:%02d:%02d UTC", b, got.UTC(), y, mo, d, h, mi, s)
		}
		if _, off := got.Zone(); off != 0 {
			return fmt.Sprintf("parseDVBTime(%x) = %v: not UTC", b, got)
		}
		return ""
	}
	one := func(mjd, sod int) string { return oneIn(mjd, sod, nil) }
	if s := parallelRange(mjdMax-mjdMin+1, func(lo, hi uint64) string {
		for i := lo; i < hi; i++ {
			for _, sod := range grid {
				if s := one(mjdMin+int(i), sod); s != "" {
					return s
				}
			}
		}
		return ""
	}); s != "" {
		t.Fatal(s)
	}
	// the same sweep with one buffer per worker that is overwritten for every call, days descending
	if s := parallelRange(mjdMax-mjdMin+1, func(lo, hi uint64) string {
		scratch := make([]byte, 5)
		for i := hi; i > lo; i-- {
			for _, sod := range grid[:4] {
				if s := oneIn(mjdMin+int(i-1), sod, scratch); s != "" {
					return s + " (decoded from a buffer the caller reuses for every call)"
				}
			}
		}
		return ""
	}); s != "" {
		t.Fatal(s)
	}
	rec.Enumerated(int64((mjdMax - mjdMin + 1) * (len(grid) + 4)))
	// a field cut short (2..4 bytes: an error) between two complete ones must not influence the next decode
	if s := parallelRange(mjdMax-mjdMin+1, func(lo, hi uint64) string {
		for i := lo; i < hi; i++ {
			mjd := mjdMin + int(i)
			other := mjdMin + (int(i)+12345)%(mjdMax-mjdMin+1)
			if s := one(other, 45900); s != "" {
				return s
			}
			full := []byte{byte(mjd >> 8), byte(mjd), 0x23, 0x59, 0x59}
			if _, err := astits.VerifParseDVBTime(full[:2+int(i)%3]); err == nil {
				return fmt.Sprintf("parseDVBTime(%x): no error for a truncated field", full[:2+int(i)%3])
			}
			if s := one(mjd, 86399); s != "" {
				return s + " (decoded right after a truncated field of the same day)"
			}
		}
		return ""
	}); s != "" {
		t.Fatal(s)
	}
	rec.Enumerated(int64((mjdMax - mjdMin + 1) * 2))
	for _, mjd := range []int{mjdMin, 49273, 51603, mjdMax} {
		for sod := 0; sod < 86400; sod++ {
			if s := one(mjd, sod); s != "" {
				t.Fatal(s)
			}
		}
		rec.Enumerated(86400)
	}
	rec.SetExhaustive(true)
	rec.Sample(map[string]interface{}{"bytes": "c079124500", "decoded": "1993-10-13T12:45:00Z"})
}

func TestC15EncodeTime(t *testing.T) {
	rec := obs.NewRecorder("C15", "encode_time", "writeDVBTime: all days MJD 15079..65535 as UTC time.Time x times of day (quick: grid of ~31; thorough: all 86400 seconds), then every day again in pairs with the same day 2^k years (k=0..7) and 2^k months (k=0..3) away, in both orders; expected bytes = MJD(16) + BCD hh mm ss")
	defer rec.Flush()
	grid := todGrid()
	if obs.Thorough() {
		grid = grid[:0]
		for s := 0; s < 86400; s++ {
			grid = append(grid, s)
		}
	}
	if s := parallelRange(mjdMax-mjdMin+1, func(lo, hi uint64) string {
		var buf bytes.Buffer
		for i := lo; i < hi; i++ {
			mjd := mjdMin + int(i)
			y, mo, d := ref.CivilFromMJD(mjd)
			for _, sod := range grid {
				h, mi, s := sod/3600, sod/60%60, sod%60
				tt := time.Date(y, time.Month(mo), d, h, mi, s, 0, time.UTC)
				buf.Reset()
				n, err := astits.VerifWriteDVBTime(&buf, tt)
				want := []byte{byte(mjd >> 8), byte(mjd), ref.BCD2(h), ref.BCD2(mi), ref.BCD2(s)}
				if err != nil || n != 5 || !bytes.Equal(buf.Bytes(), want) {
					return fmt.Sprintf("writeDVBTime(%v) = %x (n=%d, err=%v), want %x", tt, buf.Bytes(), n, err, want)
				}
			}
		}
		return ""
	}); s != "" {
		t.Fatal(s)
	}
	rec.Enumerated(int64((mjdMax - mjdMin + 1) * len(grid)))
	// the result must not depend on what was encoded before: every day again, right after the same day of the month 1, 2,
	// 4, ... 128 years and 1, 2, 4, 8 months away (and the other way round) - the neighbours a memo keyed by a truncated
	// field would confuse
	jumps := int64(0)
	if s := parallelRange(mjdMax-mjdMin+1, func(lo, hi uint64) string {
		var buf bytes.Buffer
		enc := func(y, mo, d int) string {
			tt := time.Date(y, time.Month(mo), d, 12, 0, 0, 0, time.UTC)
			if tt.Day() != d {
				return "" // no such day in that month
			}
			mjd := ref.MJDFromCivil(tt.Year(), int(tt.Month()), d)
			if mjd < mjdMin || mjd > mjdMax {
				return ""
			}
			buf.Reset()
			n, err := astits.VerifWriteDVBTime(&buf, tt)
			want := []byte{byte(mjd >> 8), byte(mjd), 0x12, 0, 0}
			if err != nil || n != 5 || !bytes.Equal(buf.Bytes(), want) {
				return fmt.Sprintf("writeDVBTime(%v) = %x (n=%d, err=%v), want %x", tt, buf.Bytes(), n, err, want)
			}
			return ""
		}
		for i := lo; i < hi; i++ {
			y, mo, d := ref.CivilFromMJD(mjdMin + int(i))
			for k := 0; k < 12; k++ {
				y2, mo2 := y+1<<uint(k), mo
				if k >= 8 {
					y2, mo2 = y, mo+1<<uint(k-8)
				}
				for _, pair := range [][2][2]int{{{y, mo}, {y2, mo2}}, {{y2, mo2}, {y, mo}}} {
					if s := enc(pair[0][0], pair[0][1], d); s != "" {
						return s
					}
					if s := enc(pair[1][0], pair[1][1], d); s != "" {
						return s + fmt.Sprintf(" (encoded right after %04d-%02d-%02d)", pair[0][0], pair[0][1], d)
					}
				}
			}
		}
		return ""
	}); s != "" {
		t.Fatal(s)
	}
	jumps = int64(mjdMax-mjdMin+1) * 12 * 4
	rec.Enumerated(jumps)
	rec.SetExhaustive(obs.Thorough())
	rec.Sample(map[string]interface{}{"time": "1993-10-13T12:45:00Z", "encoded": "c079124500"})
}

func TestC15Durations(t *testing.T) {
	rec := obs.NewRecorder("C15", "durations", "all 10^4 hh:mm and 10^6 hh:mm:ss BCD digit patterns decoded digit-wise; every canonical duration (mm,ss < 60, hh 0..99) encoded; all 2^16 / 2^24 raw patterns for panic-freedom (values only asserted when every nibble is a decimal digit)")
	defer rec.Flush()
	// decode: minutes
	for raw := 0; raw < 1<<16; raw++ {
		b := []byte{byte(raw >> 8), byte(raw)}
		got, err := astits.VerifParseDVBDurationMinutes(b)
		if err != nil {
			t.Fatalf("parseDVBDurationMinutes(%x) error %v", b, err)
		}
		h, ok1 := ref.FromBCD2(b[0])
		m, ok2 := ref.FromBCD2(b[1])
		if ok1 && ok2 {
			if want := time.Duration(h)*time.Hour + time.Duration(m)*time.Minute; got != want {
				t.Fatalf("parseDVBDurationMinutes(%x) = %v, want %v", b, got, want)
			}
			rec.Enumerated(1)
		} else {
			rec.Evals(1)
		}
	}
	// decode: seconds (2^24 patterns)
	if s := parallelRange(1<<24, func(lo, hi uint64) string {
		for raw := lo; raw < hi; raw++ {
			b := []byte{byte(raw >> 16), byte(raw >> 8), byte(raw)}
			got, err := astits.VerifParseDVBDurationSeconds(b)
			if err != nil {
				return fmt.Sprintf("parseDVBDurationSeconds(%x) error %v", b, err)
			}
			h, ok1 := ref.FromBCD2(b[0])
			m, ok2 := ref.FromBCD2(b[1])
			s, ok3 := ref.FromBCD2(b[2])
			if ok1 && ok2 && ok3 {
				if want := time.Duration(h)*time.Hour + time.Duration(m)*time.Minute + time.Duration(s)*time.Second; got != want {
					return fmt.Sprintf("parseDVBDurationSeconds(%x) = %v, want %v", b, got, want)
				}
			}
		}
		return ""
	}); s != "" {
		t.Fatal(s)
	}
	rec.Enumerated(1000000)
	rec.Evals(1<<24 - 1000000)
	// encode
	var buf bytes.Buffer
	for h := 0; h < 100; h++ {
		for m := 0; m < 60; m++ {
			d := time.Duration(h)*time.Hour + time.Duration(m)*time.Minute
			buf.Reset()
			n, err := astits.VerifWriteDVBDurationMinutes(&buf, d)
			want := []byte{ref.BCD2(h), ref.BCD2(m)}
			if err != nil || n != 2 || !bytes.Equal(buf.Bytes(), want) {
				t.Fatalf("writeDVBDurationMinutes(%v) = %x (n=%d err=%v), want %x", d, buf.Bytes(), n, err, want)
			}
			rec.Enumerated(1)
			for s := 0; s < 60; s++ {
				ds := d + time.Duration(s)*time.Second
				buf.Reset()
				n, err := astits.VerifWriteDVBDurationSeconds(&buf, ds)
				want := []byte{ref.BCD2(h), ref.BCD2(m), ref.BCD2(s)}
				if err != nil || n != 3 || !bytes.Equal(buf.Bytes(), want) {
					t.Fatalf("writeDVBDurationSeconds(%v) = %x (n=%d err=%v), want %x", ds, buf.Bytes(), n, err, want)
				}
				rec.Enumerated(1)
			}
		}
	}
	// all 2^16 MJD values x a raw time of day: must not panic or fail
	for mjd := 0; mjd < 1<<16; mjd++ {
		b := []byte{byte(mjd >> 8), byte(mjd), 0xff, 0xff, 0xff}
		if _, err := astits.VerifParseDVBTime(b); err != nil {
			t.Fatalf("parseDVBTime(%x) error %v", b, err)
		}
	}
	rec.Evals(1 << 16)
	rec.SetExhaustive(true)
	rec.Sample(map[string]interface{}{"bytes": "014530", "decoded": "1h45m30s"})
}

// TestC15ThroughDemuxer: the same conversions observed through the public API: a TOT and an EIT event for every day.
func TestC15ThroughDemuxer(t *testing.T) {
	rec := obs.NewRecorder("C15", "through_demuxer", "every MJD day 15079..65535 carried as TOT UTC_time and as EIT event start_time (time of day and BCD duration varying with the day) in reference-encoded sections sent through the Demuxer: DemuxerData.TOT.UTCTime, EIT StartTime and Duration must be the calendar values; distinct by construction")
	defer rec.Flush()
	shard, nshards := obs.Shard()
	n := int64(0)
	for mjd := mjdMin; mjd <= mjdMax; mjd++ {
		if mjd%nshards != shard {
			continue
		}
		sod := (mjd * 7919) % 86400
		dur := time.Duration((mjd*31)%360000) * time.Second
		body := []byte{byte(mjd >> 8), byte(mjd), ref.BCD2(sod / 3600), ref.BCD2(sod / 60 % 60), ref.BCD2(sod % 60), 0xf0, 0x00}
		eitBody := []byte{0, 1, 0, 2, 0, 0x4e, 0x12, 0x34, byte(mjd >> 8), byte(mjd), ref.BCD2(sod / 3600), ref.BCD2(sod / 60 % 60), ref.BCD2(sod % 60)}
		eitBody = append(eitBody, ref.DurationHMS(dur)...)
		eitBody = append(eitBody, 0x80, 0x00)
		stream := append(fixedSectionStream(0x73, 0x14, body, false), fixedSectionStream(0x4e, 0x12, eitBody, false)...)
		res := demuxAll(stream)
		want := time.Unix(ref.UnixFromDVB(mjd, sod), 0).UTC()
		okTOT, okEIT := false, false
		for _, it := range res.items {
			if it.TOT != nil && it.TOT.UTCTime.Equal(want) {
				okTOT = true
			}
			if it.EIT != nil && len(it.EIT.Events) == 1 && it.EIT.Events[0].StartTime.Equal(want) && it.EIT.Events[0].Duration == dur {
				okEIT = true
			}
		}
		if !okTOT || !okEIT || len(res.errs) > 0 {
			t.Fatalf("MJD %d %02d:%02d:%02d duration %v: TOT ok=%v EIT ok=%v errors=%s items=%s", mjd, sod/3600, sod/60%60, sod%60, dur, okTOT, okEIT, errStrings(res.errs), obs.Trunc(obs.Canon(res.items), 600))
		}
		n++
	}
	rec.Enumerated(n)
	rec.SetExhaustive(true)
	rec.Sample(map[string]interface{}{"days": n, "example": "MJD 49273 -> 1993-10-13"})
}
