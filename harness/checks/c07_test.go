package checks

import (
	"fmt"
	"testing"

	"pgregory.net/rapid"

	"verifharness/gen"
	"verifharness/obs"
	"verifharness/ref"
)

// C07 — what is delivered for a PID depends only on that PID's packets.

// pidQueues extracts the per-PID packet sequences (unit packets only) of a stream model.
func pidQueues(m *streamModel) (order []uint16, q map[uint16][][]byte, firstPAT int) {
	q = map[uint16][][]byte{}
	for _, sp := range m.packets {
		if sp.unit == nil {
			continue
		}
		if _, ok := q[sp.p.PID]; !ok {
			order = append(order, sp.p.PID)
		}
		q[sp.p.PID] = append(q[sp.p.PID], sp.raw)
	}
	if us := m.perPID[0]; len(us) > 0 {
		firstPAT = len(us[0].packets)
	}
	return
}

// mergeQueues interleaves the queues order-preservingly; the first firstPAT packets of PID 0 always come first. pick
// chooses the next queue among n live ones.
func mergeQueues(order []uint16, q map[uint16][][]byte, firstPAT int, pick func(n int) int, burst func() int) [][]byte {
	pos := map[uint16]int{}
	var out [][]byte
	for i := 0; i < firstPAT; i++ {
		out = append(out, q[0][i])
	}
	pos[0] = firstPAT
	for {
		var live []uint16
		for _, pid := range order {
			if pos[pid] < len(q[pid]) {
				live = append(live, pid)
			}
		}
		if len(live) == 0 {
			return out
		}
		pid := live[pick(len(live))]
		for n := burst(); n > 0 && pos[pid] < len(q[pid]); n-- {
			out = append(out, q[pid][pos[pid]])
			pos[pid]++
		}
	}
}

func noisePacket(t *rapid.T, pids []uint16, q map[uint16][][]byte) []byte {
	switch gen.Uniform(t, 3, "noisekind") {
	case 0:
		return ref.NullPacket(byte(rapid.SampledFrom([]int{0xff, 0x00, 0x47}).Draw(t, "nullfill"))).MustEncode()
	case 1:
		// a transport-error packet: a copy of some packet of the stream with the indicator set
		pid := pids[gen.Uniform(t, len(pids), "teipid")]
		src := q[pid][rapid.IntRange(0, len(q[pid])-1).Draw(t, "teisrc")]
		c := append([]byte{}, src...)
		c[1] |= 0x80
		c[3] = c[3]&0xf0 | byte(rapid.IntRange(0, 15).Draw(t, "teicc"))
		return c
	default:
		// an adaptation-field-only packet on a PID that carries no unit in this stream
		af := gen.AF(t, 184, gen.AFOpts{NoDisc: true}, "noiseaf")
		af.Stuffing = 184 - af.Size()
		return (&ref.TSPacket{PID: 0x1ffd, HasAF: true, CC: uint8(rapid.IntRange(0, 15).Draw(t, "afcc")), AF: af}).MustEncode()
	}
}

func TestC07Merges(t *testing.T) {
	rec := obs.NewRecorder("C07", "merges", "rapid: per-PID packet sequences from the reference multiplexer (PES PIDs, PAT, PMT PIDs, SI PIDs); the base interleaving, 4 further random order-preserving merges (PAT unit first), the single-PID streams (plus the PAT for a PMT PID) and merges with null / transport-error / adaptation-only packets inserted at random points must all deliver, for every PID, exactly the same sequence (FirstPacket included); non-trivial = >= 3 PIDs with >= 2 units on one of them; distinct by stream bytes")
	defer rec.Flush()
	rapid.Check(t, func(t *rapid.T) {
		o := defaultStreamOpts()
		o.noise, o.smallPSI, o.maxPESLen = false, true, 900
		m := drawStream(t, o)
		order, q, firstPAT := pidQueues(m)
		base, _, nerr, ended := perPIDCanon(mergeQueues(order, q, firstPAT, func(n int) int { return 0 }, func() int { return 1 << 30 }))
		if nerr != 0 || !ended {
			t.Fatalf("sequential stream produces errors\n%s", m.describe())
		}
		check := func(raw [][]byte, what string, only map[uint16]bool) {
			got, _, nerr, ended := perPIDCanon(raw)
			if nerr != 0 || !ended {
				t.Fatalf("%s: errors (%d) or no end\nstream: %s", what, nerr, m.describe())
			}
			for pid, want := range base {
				if only != nil && !only[pid] {
					continue
				}
				if !equalStrings(got[pid], want) {
					t.Fatalf("%s: PID %#x delivers %d items, %d when the PIDs are sent one after the other%s\nstream: %s", what, pid, len(got[pid]), len(want), firstDiff(got[pid], want), m.describe())
				}
			}
			for pid, g := range got {
				if _, ok := base[pid]; !ok && len(g) > 0 && (only == nil || only[pid]) {
					t.Fatalf("%s: items appear on PID %#x", what, pid)
				}
			}
		}
		var model [][]byte
		for _, sp := range m.packets {
			model = append(model, sp.raw)
		}
		check(model, "model interleaving", nil)
		for k := 0; k < 4; k++ {
			raw := mergeQueues(order, q, firstPAT, func(n int) int { return gen.Uniform(t, n, "pick") }, func() int {
				if gen.Chance(t, 40, "burst") {
					return rapid.IntRange(1, 6).Draw(t, "burstlen")
				}
				return 1
			})
			check(raw, fmt.Sprintf("random merge %d", k), nil)
			if k%2 == 1 {
				// the same merge with foreign packets sprinkled in
				var noisy [][]byte
				for _, r := range raw {
					noisy = append(noisy, r)
					if gen.Chance(t, 20, "noise") {
						noisy = append(noisy, noisePacket(t, order, q))
					}
				}
				check(noisy, fmt.Sprintf("random merge %d with null/TEI/adaptation-only packets inserted", k), nil)
			}
		}
		for _, pid := range order {
			var raw [][]byte
			if m.pmtPIDs[pid] {
				raw = append(raw, q[0][:firstPAT]...)
			}
			raw = append(raw, q[pid]...)
			check(raw, fmt.Sprintf("PID %#x alone", pid), map[uint16]bool{pid: true})
		}
		multi := false
		for _, us := range m.perPID {
			if len(us) >= 2 {
				multi = true
			}
		}
		h := obs.NewHasher()
		h.Bytes(m.bytes())
		rec.Case(h.Sum(), len(order) >= 3 && multi, func() interface{} {
			return map[string]interface{}{"stream": m.describe(), "pids": len(order)}
		})
	})
}

// TestC07AllMerges enumerates every order-preserving merge of two short per-PID sequences.
func TestC07AllMerges(t *testing.T) {
	rec := obs.NewRecorder("C07", "all_merges", "rapid: two PIDs with 2..5 packets each (PES/PES, PES/SI and PAT+PMT/PES pairs): EVERY order-preserving merge of the two sequences (up to 252 per case) must deliver the same per-PID sequences; non-trivial = every case; distinct by the two sequences")
	defer rec.Flush()
	rapid.Check(t, func(t *rapid.T) {
		o := defaultStreamOpts()
		o.noise, o.smallPSI, o.maxPESLen, o.maxPESPIDs, o.maxPMTPIDs, o.siPIDs, o.maxUnits = false, true, 500, 2, 0, false, 2
		switch gen.Uniform(t, 3, "pair") {
		case 1:
			o.maxPESPIDs, o.siPIDs = 1, true
		case 2:
			o.maxPESPIDs, o.maxPMTPIDs = 1, 1
		}
		m := drawStream(t, o)
		order, q, firstPAT := pidQueues(m)
		// keep two queues of at most 5 packets (after the PAT prefix)
		var a, b uint16
		found := 0
		for _, pid := range order {
			n := len(q[pid])
			if pid == 0 {
				n -= firstPAT
			}
			if n >= 1 && found < 2 {
				if found == 0 {
					a = pid
				} else {
					b = pid
				}
				found++
			}
		}
		if found < 2 {
			t.Skip("fewer than two PIDs")
		}
		qa, qb := q[a], q[b]
		if a == 0 {
			qa = qa[firstPAT:]
		}
		if len(qa) > 5 || len(qb) > 5 {
			t.Skip("sequences too long for exhaustive merging")
		}
		prefix := append([][]byte{}, q[0][:min(firstPAT, len(q[0]))]...)
		seq := append(append(append([][]byte{}, prefix...), qa...), qb...)
		want, _, nerr, _ := perPIDCanon(seq)
		if nerr != 0 {
			t.Skip("truncated units produce errors")
		}
		n := 0
		var rec2 func(i, j int, cur [][]byte)
		rec2 = func(i, j int, cur [][]byte) {
			if i == len(qa) && j == len(qb) {
				got, _, _, _ := perPIDCanon(cur)
				for _, pid := range []uint16{a, b} {
					if !equalStrings(got[pid], want[pid]) {
						t.Fatalf("a merge of PIDs %#x and %#x changes what PID %#x delivers (%d items, %d sequentially)%s\nstream: %s", a, b, pid, len(got[pid]), len(want[pid]), firstDiff(got[pid], want[pid]), m.describe())
					}
				}
				n++
				return
			}
			if i < len(qa) {
				rec2(i+1, j, append(cur[:len(cur):len(cur)], qa[i]))
			}
			if j < len(qb) {
				rec2(i, j+1, append(cur[:len(cur):len(cur)], qb[j]))
			}
		}
		rec2(0, 0, prefix)
		rec.ClassN("merges", int64(n))
		h := obs.NewHasher()
		for _, r := range seq {
			h.Bytes(r)
		}
		rec.Case(h.Sum(), true, func() interface{} {
			return map[string]interface{}{"pid_a": a, "packets_a": len(qa), "pid_b": b, "packets_b": len(qb), "merges": n}
		})
	})
}

func TestC07Corruption(t *testing.T) {
	rec := obs.NewRecorder("C07", "corruption", "rapid: a stream and one victim PID x (not the PAT): packets of x are corrupted (payload bytes, adaptation_field_length, continuity_counter, payload_unit_start_indicator, dropped, duplicated, truncated at end of stream; sync byte and PID field intact); every other PID must deliver exactly what it delivers in the clean stream (errors returned by calls are skipped over); non-trivial = >= 3 corrupted packets and >= 2 other PIDs; distinct by stream bytes + corruption")
	defer rec.Flush()
	rapid.Check(t, func(t *rapid.T) {
		o := defaultStreamOpts()
		o.smallPSI, o.maxPESLen = true, 900
		m := drawStream(t, o)
		var cand []uint16
		for _, pid := range m.pids {
			if pid != 0 {
				cand = append(cand, pid)
			}
		}
		if len(cand) == 0 || len(m.pids) < 2 {
			t.Skip("no victim PID")
		}
		x := cand[gen.Uniform(t, len(cand), "victim")]
		var raw [][]byte
		for _, sp := range m.packets {
			raw = append(raw, sp.raw)
		}
		clean, _, nerr, _ := perPIDCanon(raw)
		if nerr != 0 {
			t.Fatalf("clean stream has errors\n%s", m.describe())
		}
		var bad [][]byte
		ncorr := 0
		h := obs.NewHasher()
		h.Bytes(m.bytes())
		lastOfX := -1
		for i, sp := range m.packets {
			if sp.p.PID == x {
				lastOfX = i
			}
		}
		for i, sp := range m.packets {
			if sp.p.PID != x || !gen.Chance(t, 45, "corrupt") {
				bad = append(bad, sp.raw)
				continue
			}
			c := append([]byte{}, sp.raw...)
			k := gen.Uniform(t, 8, "ckind")
			h.Int(int64(i*8 + k))
			ncorr++
			switch k {
			case 0:
				for n := rapid.IntRange(1, 20).Draw(t, "nbytes"); n > 0; n-- {
					c[rapid.IntRange(4, 187).Draw(t, "pos")] = rapid.Byte().Draw(t, "val")
				}
			case 1:
				c[3] |= 0x20
				c[4] = byte(rapid.SampledFrom([]int{0, 1, 100, 182, 183, 184, 255}).Draw(t, "aflen"))
			case 2:
				c[3] = c[3]&0xf0 | byte(rapid.IntRange(0, 15).Draw(t, "cc"))
			case 3:
				c[1] ^= 0x40
			case 4:
				continue // dropped
			case 5:
				bad = append(bad, c) // duplicated
			case 6:
				// garbage payload that looks like a PES start / a section start
				copy(c[4:], []byte{0x00, 0x00, 0x01, 0xe0, 0xff, 0xff, 0x80, 0xff, 0xff})
				c[1] |= 0x40
				c[3] = c[3]&0xcf | 0x10
			default:
				if i == lastOfX {
					continue // the PID's stream ends mid-unit
				}
				c[3] = c[3]&0xcf | 0x10 // payload only: the former adaptation field bytes become payload
			}
			bad = append(bad, c)
		}
		got, _, _, ended := perPIDCanon(bad)
		if !ended {
			t.Fatalf("no ErrNoMorePackets\n%s", m.describe())
		}
		others := 0
		for pid, want := range clean {
			if pid == x {
				continue
			}
			others++
			if !equalStrings(got[pid], want) {
				t.Fatalf("corrupting packets of PID %#x changed what PID %#x delivers (%d items, %d in the clean stream)%s\nstream: %s\norder: %s", x, pid, len(got[pid]), len(want), firstDiff(got[pid], want), m.describe(), m.order())
			}
		}
		for pid, g := range got {
			if _, ok := clean[pid]; !ok && pid != x && len(g) > 0 {
				t.Fatalf("corrupting PID %#x made items appear on PID %#x", x, pid)
			}
		}
		if m.pmtPIDs[x] {
			rec.Class("victim_is_pmt_pid")
		}
		rec.Case(h.Sum(), ncorr >= 3 && others >= 2, func() interface{} {
			return map[string]interface{}{"stream": m.describe(), "victim_pid": x, "corrupted_packets": ncorr}
		})
	})
}
