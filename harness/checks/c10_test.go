package checks

import (
	"bytes"
	"encoding/hex"
	"runtime"
	"sync"
	"sync/atomic"
	"testing"

	astits "github.com/asticode/go-astits"
	"pgregory.net/rapid"

	"verifharness/gen"
	"verifharness/obs"
	"verifharness/ref"
)

// C10 — the section checksum is exactly CRC-32/MPEG-2.

func TestC10Table(t *testing.T) {
	rec := obs.NewRecorder("C10", "table", "all 256 entries of the byte-wise table against entries derived bit by bit from polynomial 0x04C11DB7")
	defer rec.Flush()
	tab := astits.VerifCRC32Table()
	for i := 0; i < 256; i++ {
		if want := ref.CRC32MPEG2TableEntry(i); tab[i] != want {
			t.Errorf("table[%d] = %#08x, reference %#08x", i, tab[i], want)
		}
	}
	rec.Enumerated(256)
	rec.SetExhaustive(true)
	rec.Sample(map[string]interface{}{"entry": 1, "value": tab[1]})
}

// parallelRange runs f(lo,hi) over [0,n) split across all cores; f returns the first failure description or "".
func parallelRange(n uint64, f func(lo, hi uint64) string) string {
	w := uint64(runtime.NumCPU())
	if w > 32 {
		w = 32
	}
	chunk := (n + w - 1) / w
	var wg sync.WaitGroup
	var first atomic.Value
	for i := uint64(0); i < w; i++ {
		lo, hi := i*chunk, (i+1)*chunk
		if hi > n {
			hi = n
		}
		if lo >= hi {
			continue
		}
		wg.Add(1)
		go func(lo, hi uint64) {
			defer wg.Done()
			if s := f(lo, hi); s != "" {
				first.CompareAndSwap(nil, s)
			}
		}(lo, hi)
	}
	wg.Wait()
	if v := first.Load(); v != nil {
		return v.(string)
	}
	return ""
}

func TestC10Step(t *testing.T) {
	rec := obs.NewRecorder("C10", "step", "single-step pairs (state, byte): update(state,[byte]) against the bitwise step; quick: 2^24 stratified states x 16 byte values + all 65536 (top state byte, byte) pairs; thorough: all 2^32 states for byte 0 + 2^24 stratified states x all 256 byte values")
	defer rec.Flush()
	one := func(state uint32, b byte) string {
		got := astits.VerifUpdateCRC32(state, []byte{b})
		if want := ref.CRC32MPEG2Step(state, b); got != want {
			return "update(" + hex.EncodeToString([]byte{byte(state >> 24), byte(state >> 16), byte(state >> 8), byte(state)}) + ", [" + hex.EncodeToString([]byte{b}) + "]) = " + hex32(got) + ", reference " + hex32(want)
		}
		return ""
	}
	// all (top byte of the state, byte) pairs with varied low bits
	for hi := 0; hi < 256; hi++ {
		for b := 0; b < 256; b++ {
			st := uint32(hi)<<24 | uint32((hi*2654435761+b*40503)&0xffffff)
			if s := one(st, byte(b)); s != "" {
				t.Fatal(s)
			}
		}
	}
	rec.Enumerated(65536)
	// stratified states: multiply by an odd constant = a bijection on 2^32, take the first 2^24 of it
	strat := func(i uint64) uint32 { return uint32(i*2654435761 + 0x9e3779b9) }
	var byteVals []byte
	if obs.Thorough() {
		for b := 0; b < 256; b++ {
			byteVals = append(byteVals, byte(b))
		}
	} else {
		byteVals = []byte{0x00, 0x01, 0x02, 0x04, 0x08, 0x10, 0x20, 0x40, 0x80, 0xff, 0x47, 0xaa, 0x55, 0x7f, 0xfe, 0x13}
	}
	if s := parallelRange(1<<24, func(lo, hi uint64) string {
		for i := lo; i < hi; i++ {
			st := strat(i)
			for _, b := range byteVals {
				if s := one(st, b); s != "" {
					return s
				}
			}
		}
		return ""
	}); s != "" {
		t.Fatal(s)
	}
	rec.Enumerated(int64(len(byteVals)) << 24)
	if obs.Thorough() {
		if s := parallelRange(1<<32, func(lo, hi uint64) string {
			for i := lo; i < hi; i++ {
				if s := one(uint32(i), 0); s != "" {
					return s
				}
			}
			return ""
		}); s != "" {
			t.Fatal(s)
		}
		rec.Enumerated(1 << 32)
		rec.Note("all 2^32 states enumerated for byte 0")
	}
	rec.Sample(map[string]interface{}{"state": "0x9e3779b9", "byte": 0x47, "result": hex32(astits.VerifUpdateCRC32(0x9e3779b9, []byte{0x47}))})
}

func hex32(v uint32) string {
	return "0x" + hex.EncodeToString([]byte{byte(v >> 24), byte(v >> 16), byte(v >> 8), byte(v)})
}

func TestC10Short(t *testing.T) {
	rec := obs.NewRecorder("C10", "short", "all messages of length 0, 1 and 2 against the bitwise reference, and residue 0 of message||CRC")
	defer rec.Flush()
	check := func(m []byte) {
		got, want := astits.VerifComputeCRC32(m), ref.CRC32MPEG2(m)
		if got != want {
			t.Fatalf("compute(%x) = %#08x, reference %#08x", m, got, want)
		}
		full := append(append([]byte{}, m...), byte(got>>24), byte(got>>16), byte(got>>8), byte(got))
		if r := astits.VerifComputeCRC32(full); r != 0 {
			t.Fatalf("residue of %x||crc = %#08x, want 0", m, r)
		}
	}
	check(nil)
	for a := 0; a < 256; a++ {
		check([]byte{byte(a)})
		for b := 0; b < 256; b++ {
			check([]byte{byte(a), byte(b)})
		}
	}
	if got := astits.VerifComputeCRC32([]byte("123456789")); got != 0x0376E6E7 {
		t.Fatalf("check value of \"123456789\" = %#08x, want 0x0376e6e7", got)
	}
	rec.Enumerated(1 + 256 + 65536)
	rec.SetExhaustive(true)
	rec.Sample(map[string]interface{}{"message": "3132", "crc": hex32(astits.VerifComputeCRC32([]byte("12")))})
}

func TestC10Split(t *testing.T) {
	rec := obs.NewRecorder("C10", "split", "random messages up to 4 KiB (rapid; lengths biased to 0..8 and to section-like sizes), every split point: update(update(init,a),b) == compute(a||b) == bitwise reference; residue 0; non-trivial = length >= 2; distinct by message content")
	defer rec.Flush()
	rapid.Check(t, func(t *rapid.T) {
		var n int
		switch rapid.IntRange(0, 3).Draw(t, "lenClass") {
		case 0:
			n = rapid.IntRange(0, 8).Draw(t, "len")
		case 1:
			n = rapid.IntRange(9, 200).Draw(t, "len")
		case 2:
			n = rapid.IntRange(201, 1024).Draw(t, "len")
		default:
			n = rapid.IntRange(1025, 4096).Draw(t, "len")
		}
		m := rapid.SliceOfN(rapid.Byte(), n, n).Draw(t, "msg")
		want := ref.CRC32MPEG2(m)
		if got := astits.VerifComputeCRC32(m); got != want {
			t.Fatalf("compute(%x) = %#08x, reference %#08x", m, got, want)
		}
		for k := 0; k <= len(m); k++ {
			if got := astits.VerifUpdateCRC32(astits.VerifUpdateCRC32(0xffffffff, m[:k]), m[k:]); got != want {
				t.Fatalf("split at %d of %x: %#08x, one pass %#08x", k, m, got, want)
			}
		}
		// three pieces
		if len(m) >= 2 {
			i := rapid.IntRange(0, len(m)).Draw(t, "i")
			j := rapid.IntRange(i, len(m)).Draw(t, "j")
			got := astits.VerifUpdateCRC32(astits.VerifUpdateCRC32(astits.VerifUpdateCRC32(0xffffffff, m[:i]), m[i:j]), m[j:])
			if got != want {
				t.Fatalf("3-way split %d,%d of %x: %#08x, one pass %#08x", i, j, m, got, want)
			}
		}
		full := append(append([]byte{}, m...), byte(want>>24), byte(want>>16), byte(want>>8), byte(want))
		if r := astits.VerifComputeCRC32(full); r != 0 {
			t.Fatalf("residue of %x||crc = %#08x", m, r)
		}
		// the checksum is a function of the bytes, not of the buffer: the same buffer refilled with another message of
		// the same length (what a pooled reassembly buffer does) must give that message's checksum
		if len(m) > 0 {
			buf := append([]byte{}, m...)
			_ = astits.VerifComputeCRC32(buf)
			k := rapid.IntRange(0, len(buf)-1).Draw(t, "reusepos")
			buf[k] ^= byte(1 + rapid.IntRange(0, 254).Draw(t, "reusexor"))
			if got, w := astits.VerifComputeCRC32(buf), ref.CRC32MPEG2(buf); got != w {
				t.Fatalf("compute on a refilled buffer %x = %#08x, reference %#08x (checksum of the previous content: %#08x)", buf, got, w, want)
			}
		}
		h := obs.NewHasher()
		h.Bytes(m)
		rec.Case(h.Sum(), len(m) >= 2, func() interface{} {
			return map[string]interface{}{"len": len(m), "message_head": hex.EncodeToString(m[:min(len(m), 24)]), "crc": hex32(want), "split_points": len(m) + 1}
		})
		rec.ClassN("split_points", int64(len(m)+1))
		if len(m) > 1024 {
			rec.Class("len>1024")
		}
	})
}

// TestC10Sections: the checksum as the section writer and reader use it.
func TestC10Sections(t *testing.T) {
	rec := obs.NewRecorder("C10", "sections", "rapid: the checksum where the library uses it: PAT/PMT sections of every size written by writePSIData (1..3 per unit, the struct's CRC32 field holding a stale value, the section_syntax_indicator bit sometimes 0) must each end with the bitwise CRC-32/MPEG-2 of the bytes before it (the writer feeds the checksum piecewise; 40% after a write of the same section that the writer refused part-way); sections of the six table types with arbitrary bodies of 0..1000 bytes and the reference CRC must be accepted by the Demuxer, and rejected when one CRC bit is flipped, including two sections of equal length in a row (pooled buffer reuse); non-trivial = section longer than 64 bytes; distinct by section bytes")
	defer rec.Flush()
	rapid.Check(t, func(t *rapid.T) {
		// writer
		kind := gen.Uniform(t, 2, "kind")
		s := gen.Section(t, kind, gen.SectionOpts{MaxBody: rapid.IntRange(0, 1000).Draw(t, "maxbody")}, "s")
		enc := s.Encode()
		sec := &astits.PSISection{
			Header: &astits.PSISectionHeader{PrivateBit: s.Private, SectionLength: uint16(len(enc) - 3), SectionSyntaxIndicator: !gen.Chance(t, 15, "nosyntaxbit"), TableID: astits.PSITableID(s.TableID)},
			Syntax: &astits.PSISectionSyntax{
				Header: &astits.PSISectionSyntaxHeader{CurrentNextIndicator: s.CurrentNext, LastSectionNumber: s.Last, SectionNumber: s.Number, TableIDExtension: s.Ext(), VersionNumber: s.Version},
				Data:   &astits.PSISectionSyntaxData{PAT: s.PAT, PMT: s.PMT},
			},
		}
		aborted := -1
		if gen.Chance(t, 40, "abortfirst") {
			// an earlier write of the section that the writer refuses part-way must not leak into the next checksum
			aborted = rapid.IntRange(0, len(enc)).Draw(t, "abortat")
			if _, err := astits.VerifWritePSIData(&refusingWriter{left: aborted}, &astits.PSIData{Sections: []*astits.PSISection{sec}}); err == nil && aborted < len(enc) {
				t.Fatalf("writePSIData to a writer that accepts %d bytes of %d returned no error", aborted, len(enc)+1)
			}
			rec.Class("after_an_aborted_write")
		}
		// the CRC32 field of the struct is what the parser read, not an input of the writer: a stale value must not be written
		sec.CRC32 = rapid.Uint32().Draw(t, "stalecrc")
		var out bytes.Buffer
		nsec := 1 + gen.Uniform(t, 3, "nsections")
		secs := []*astits.PSISection{sec}
		for len(secs) < nsec {
			secs = append(secs, sec)
		}
		if _, err := astits.VerifWritePSIData(&out, &astits.PSIData{Sections: secs}); err != nil {
			t.Fatalf("writePSIData: %v", err)
		}
		w := out.Bytes()
		if len(w) != 1+nsec*len(enc) {
			t.Fatalf("writePSIData wrote %d bytes for %d sections of %d bytes", len(w), nsec, len(enc))
		}
		for k := 1; k < nsec; k++ {
			// every section of the unit carries its own checksum, started afresh
			if at := 1 + k*len(enc); ref.CRC32MPEG2(w[at:at+len(enc)]) != 0 {
				t.Fatalf("section %d of %d written by writePSIData does not end with the CRC-32/MPEG-2 of its bytes: %x", k+1, nsec, w[at:at+len(enc)])
			}
		}
		w = w[:1+len(enc)]
		if len(w) < 5 || ref.CRC32MPEG2(w[1:]) != 0 {
			t.Fatalf("section written by writePSIData (%d bytes; previous write aborted after %d bytes, -1 = none) does not end with the CRC-32/MPEG-2 of its bytes: %x", len(w)-1, aborted, w)
		}
		// reader: arbitrary bodies, reference CRC; then the same with one CRC bit flipped; twice the same length in a row
		tb := c03Tables[gen.Uniform(t, 10, "tbl")]
		n := rapid.IntRange(0, 1000).Draw(t, "bodylen")
		b1, b2 := gen.Bytes(t, n, "body1"), gen.Bytes(t, n, "body2")
		for i, body := range [][]byte{b1, b2, b1} {
			stream := fixedSectionStream(tb.id, tb.pid, body, tb.pmt)
			res := demuxAll(stream)
			for _, e := range res.errs {
				if bytes.Contains([]byte(e.Error()), []byte("CRC32")) {
					t.Fatalf("a section (table id %#x, body %d bytes, round %d) carrying the reference CRC is rejected: %v", tb.id, len(body), i, e)
				}
			}
		}
		if n > 0 {
			stream := fixedSectionStream(tb.id, tb.pid, b1, tb.pmt)
			// flip one bit of the CRC field of the last section: it sits right before the 0xFF padding of the last packet
			last := len(stream) - 188
			end := 188
			for end > 4 && stream[last+end-1] == 0xff {
				end--
			}
			if end >= 8 && tb.id != 0x70 && tb.id != 0x4a && tb.id != 0x72 {
				stream[last+end-1-gen.Uniform(t, 4, "crcbyte")] ^= 1 << uint(gen.Uniform(t, 8, "crcbit"))
				res := demuxAll(stream)
				for _, it := range res.items {
					if it.PID == tb.pid {
						t.Fatalf("a section (table id %#x) whose CRC_32 has a flipped bit is delivered: %s", tb.id, obs.Trunc(obs.Canon(it), 300))
					}
				}
			}
		}
		h := obs.NewHasher()
		h.Bytes(enc)
		h.Bytes(b1)
		rec.Case(h.Sum(), len(enc) > 64, func() interface{} {
			return map[string]interface{}{"written_section_bytes": len(enc), "read_table_id": tb.id, "read_body_bytes": n}
		})
	})
}

// refusingWriter accepts left bytes and then fails.
type refusingWriter struct{ left int }

func (r *refusingWriter) Write(p []byte) (int, error) {
	if len(p) > r.left {
		n := r.left
		r.left = 0
		return n, errInjected
	}
	r.left -= len(p)
	return len(p), nil
}
