package checks

import (
	"fmt"
	"sort"

	astits "github.com/asticode/go-astits"
	"pgregory.net/rapid"

	"verifharness/conv"
	"verifharness/gen"
	"verifharness/obs"
	"verifharness/ref"
)

// Reference multiplexer models for the demux-side properties (C02, C03, C06, C07, C08, C16, C18, C19, C20): a random
// model of units per PID, packetised at arbitrary split points by harness/ref, interleaved order-preservingly, with the
// data the Demuxer must deliver computed from the model (never from the library).
//
// Well-formed stream (DESIGN 2.2): a PSI unit = pointer_field, filler, 1..n sections all starting in the unit's first
// packet, 0xFF stuffing or exact fit; a PES unit starts with 00 00 01; the PAT is delivered before the first packet of
// a PMT PID and PIDs keep their role; tables ride on their standard PIDs; continuity counters are correct.

const (
	unitPES = iota
	unitPSI
	unitPrivate // neither PES nor PSI: must produce nothing
)

type unitModel struct {
	pid      uint16
	kind     int
	pes      *ref.PES
	sections []*ref.Section
	payload  []byte
	packets  []*ref.TSPacket
	expect   []*astits.DemuxerData
	tableKnd int
}

type streamPacket struct {
	p    *ref.TSPacket
	unit *unitModel // nil for noise packets
	idx  int        // index of the packet inside its unit
	raw  []byte
}

type streamModel struct {
	units   []*unitModel
	perPID  map[uint16][]*unitModel
	pids    []uint16
	packets []*streamPacket
	pmtPIDs map[uint16]bool
}

func (m *streamModel) bytes() []byte {
	var b []byte
	for _, sp := range m.packets {
		b = append(b, sp.raw...)
	}
	return b
}

// expectPerPID returns what the Demuxer must deliver per PID, in order.
func (m *streamModel) expectPerPID() map[uint16][]*astits.DemuxerData {
	out := map[uint16][]*astits.DemuxerData{}
	for _, pid := range m.pids {
		for _, u := range m.perPID[pid] {
			out[pid] = append(out[pid], u.expect...)
		}
	}
	return out
}

type streamOpts struct {
	maxPESPIDs   int
	maxPMTPIDs   int
	siPIDs       bool
	maxUnits     int // per PID
	maxPESLen    int
	noise        bool // null / CAT / adaptation-field-only packets
	afInPackets  bool // adaptation field content (PCR...) on first packets
	noDisc       bool
	smallPSI     bool
	pesLenModes  bool // unbounded (0) PES_packet_length besides exact
	minPackets   int
	uniquePacket bool // make every packet of a PID distinguishable (payload never equal to its predecessor's)
	teiNoise     bool // noise also includes packets with transport_error_indicator set and a payload (PID 0x1ffc): NextPacket returns them, NextData ignores them
	emptyInUnit  bool // a PES unit may hold, after its first packet, a packet flagged with payload whose adaptation field leaves no payload byte (counter incremented as for any payload packet)
	hugePES      bool // now and then a PES unit of 56..64 KiB (the sizes at which a growing buffer reaches a capacity of exactly 65536)
	zeroPayload  bool // noise also includes packets flagged as carrying a payload whose adaptation field fills them entirely (a unit of zero bytes, on PID 0x1ffd): nothing may come of them
	networkPID   bool // the PAT's programme 0 may name a PID of its own (not 0x10) that carries NIT sections, some before the first PAT; only for relational oracles: whether a demuxer follows network_PID is not fixed by the properties
	relaxedSI    bool // units on the DVB SI PIDs (not PAT/PMT) may be cut anywhere: pointer_field alone in the first packet, a packet boundary exactly at the end of a non-last section
}

func defaultStreamOpts() streamOpts {
	return streamOpts{maxPESPIDs: 3, maxPMTPIDs: 2, siPIDs: true, maxUnits: 4, maxPESLen: 1200, noise: true, afInPackets: true, noDisc: true, pesLenModes: true}
}

// drawPESUnit draws a PES unit on pid.
func drawPESUnit(t *rapid.T, pid uint16, cc *uint8, o streamOpts, label string) *unitModel {
	u := &unitModel{pid: pid, kind: unitPES}
	p := &ref.PES{Length: -1}
	if gen.Chance(t, 8, label+"_nohdr") {
		p.StreamID = rapid.SampledFrom([]uint8{0xbe, 0xbf}).Draw(t, label+"_sidnh")
	} else {
		p.StreamID = gen.StreamIDWithHeader(t, label+"_sid")
		p.Opt = gen.PESOpt(t, gen.PESOptOpts{MaxSize: 80}, label+"_opt")
	}
	var n int
	switch gen.Uniform(t, 6, label+"_plk") {
	case 0:
		n = rapid.IntRange(0, 3).Draw(t, label+"_n")
	case 1, 2:
		k := rapid.IntRange(1, 4).Draw(t, label+"_k")
		n = k*184 - p.HeaderSize() + rapid.IntRange(-2, 2).Draw(t, label+"_d")
	default:
		n = rapid.IntRange(0, o.maxPESLen).Draw(t, label+"_n")
	}
	if n < 0 {
		n = 0
	}
	p.Payload = gen.Bytes(t, n, label+"_pl")
	if o.hugePES && gen.Chance(t, 1, label+"_huge") {
		seed := rapid.IntRange(1, 250).Draw(t, label+"_hugeseed")
		p.Payload = make([]byte, rapid.IntRange(56000, 65700).Draw(t, label+"_hugelen"))
		for i := range p.Payload {
			p.Payload[i] = byte(i*seed + i>>8)
		}
	}
	if o.pesLenModes && gen.Chance(t, 35, label+"_len0") {
		p.Length = 0
	}
	if p.EncodedLength() > 0xffff {
		p.Length = 0
	}
	u.pes = p
	u.payload = p.Encode()
	po := ref.PktOpts{Sizes: chunking(t, len(u.payload), 0, label+"_ch")}
	if o.afInPackets && gen.Chance(t, 35, label+"_af") {
		po.FirstAF = gen.AF(t, 60, gen.AFOpts{NoDisc: o.noDisc}, label+"_afc")
		room := 184 - 1 - po.FirstAF.ContentSize()
		if po.Sizes[0] > room {
			// re-draw the chunking with the room left in the first packet
			first := rapid.IntRange(1, room).Draw(t, label+"_first")
			if first > len(u.payload) {
				first = len(u.payload)
			}
			rest := chunking(t, len(u.payload)-first, 0, label+"_ch2")
			po.Sizes = append([]int{first}, rest...)
		}
	}
	po.Prio = gen.Chance(t, 10, label+"_prio")
	u.packets = ref.PacketizeUnit(pid, u.payload, cc, po)
	if o.emptyInUnit && len(u.packets) >= 2 && gen.Chance(t, 25, label+"_empty") {
		k := 1 + gen.Uniform(t, len(u.packets)-1, label+"_emptyat")
		e := &ref.TSPacket{PID: pid, CC: u.packets[k].CC, HasAF: true, AF: &ref.AF{Stuffing: 182}, HasPayload: true, Prio: po.Prio}
		for _, q := range u.packets[k:] {
			q.CC = (q.CC + 1) & 0xf
		}
		*cc = (*cc + 1) & 0xf
		u.packets = append(u.packets[:k:k], append([]*ref.TSPacket{e}, u.packets[k:]...)...)
	}
	fp := conv.PacketStruct(u.packets[0], true)
	fp.Payload = nil
	d := conv.PESStruct(p, true, p.Payload, uint16(p.EncodedLength()))
	u.expect = []*astits.DemuxerData{{PID: pid, FirstPacket: fp, PES: d}}
	return u
}

// drawPSIUnit draws a PSI unit of the given table kind on pid. fixedPAT, when not nil, is used as the (only) section.
func drawPSIUnit(t *rapid.T, pid uint16, kind int, cc *uint8, o streamOpts, fixed []*ref.Section, label string) *unitModel {
	u := &unitModel{pid: pid, kind: unitPSI, tableKnd: kind}
	var foreign [][]byte
	if fixed != nil {
		u.sections = fixed
	} else {
		n := 1
		if gen.Chance(t, 30, label+"_multi") {
			n = rapid.IntRange(2, 3).Draw(t, label+"_nsec")
		}
		used := 0
		for i := 0; i < n-1; i++ {
			s := gen.Section(t, kind, gen.SectionOpts{MaxBody: rapid.IntRange(0, 40).Draw(t, label+"_lb"), MaxItems: 2, MaxDescs: 1}, fmt.Sprintf("%s_s%d", label, i))
			if l := len(s.Encode()); used+l <= 150 {
				u.sections = append(u.sections, s)
				used += l
			}
		}
		so := gen.SectionOpts{MaxBody: rapid.IntRange(0, 300).Draw(t, label+"_mb"), MaxItems: 5, MaxDescs: 2}
		if !o.smallPSI && gen.Chance(t, 15, label+"_big") {
			so = gen.SectionOpts{MaxBody: rapid.IntRange(300, 1000).Draw(t, label+"_mbb"), MaxItems: 20, MaxDescs: 3}
		}
		u.sections = append(u.sections, gen.Section(t, kind, so, label+"_last"))
		if kind >= gen.KindSDT && gen.Chance(t, 25, label+"_foreign") && used < 120 {
			// a section of a table type the library does not decode shares the unit (TDT before TOT, BAT before SDT, ...)
			foreign = append(foreign, ref.ForeignSection(ref.ForeignTableIDs[gen.Uniform(t, len(ref.ForeignTableIDs), label+"_ftid")], gen.Bool(t, label+"_fsyn"), true, Bytes30(t, label+"_fbody")))
		}
	}
	var enc [][]byte
	head := 0
	for i, s := range u.sections {
		if i == len(u.sections)-1 {
			for _, f := range foreign {
				enc = append(enc, f)
				head += len(f)
			}
		}
		e := s.Encode()
		enc = append(enc, e)
		if i < len(u.sections)-1 {
			head += len(e)
		}
	}
	ptr := 0
	if gen.Chance(t, 30, label+"_ptr") {
		ptr = rapid.IntRange(0, min(20, 183-head-1)).Draw(t, label+"_pointer")
	}
	u.payload = ref.PSIUnit(ptr, byte(rapid.SampledFrom([]int{0xff, 0x00, 0x47}).Draw(t, label+"_fill")), enc...)
	sizes := chunking(t, len(u.payload), 1+ptr+head+1, label+"_ch")
	if o.relaxedSI && kind >= gen.KindSDT && gen.Chance(t, 50, label+"_relaxed") {
		// the library delimits units on these PIDs by payload_unit_start_indicator only: any cut must do
		sizes = chunking(t, len(u.payload), 1, label+"_rch")
		if gen.Chance(t, 60, label+"_atend") {
			// first packet ends exactly after the pointer_field (+ filler) or after a whole number of sections
			cut := 1 + ptr
			for _, e := range enc[:gen.Uniform(t, len(enc), label+"_nhead")] {
				cut += len(e)
			}
			if cut <= 184 && cut < len(u.payload) {
				sizes = append([]int{cut}, chunking(t, len(u.payload)-cut, 1, label+"_rch2")...)
			}
		}
	}
	u.packets = ref.PacketizeUnit(pid, u.payload, cc, ref.PktOpts{Sizes: sizes, PadFF: gen.Bool(t, label+"_padff")})
	fp := conv.PacketStruct(u.packets[0], true)
	fp.Payload = nil
	for _, s := range u.sections {
		d := s.Data(pid)
		d.FirstPacket = fp
		u.expect = append(u.expect, d)
	}
	return u
}

// Bytes30 draws 0..30 bytes.
func Bytes30(t *rapid.T, label string) []byte {
	return gen.Bytes(t, rapid.IntRange(0, 30).Draw(t, label+"_n"), label)
}

var siKinds = []int{gen.KindNIT, gen.KindSDT, gen.KindEIT, gen.KindTOT}

// drawStream draws a whole stream model.
func drawStream(t *rapid.T, o streamOpts) *streamModel {
	m := &streamModel{perPID: map[uint16][]*unitModel{}, pmtPIDs: map[uint16]bool{}}
	ccs := map[uint16]*uint8{}
	ccOf := func(pid uint16) *uint8 {
		if ccs[pid] == nil {
			v := uint8(rapid.IntRange(0, 15).Draw(t, fmt.Sprintf("cc0_%x", pid)))
			ccs[pid] = &v
		}
		return ccs[pid]
	}
	used := map[uint16]bool{}
	if o.zeroPayload {
		used[0x1ffd] = true // kept for the noise packets without payload bytes
	}
	if o.teiNoise {
		used[0x1ffc] = true // kept for the transport-error noise packets
	}
	var usedList []uint16
	drawPID := func(label string) uint16 {
		if len(usedList) > 0 && gen.Chance(t, 15, label+"_alias") {
			// a PID that differs from one already in the stream in its top bit only
			p := usedList[gen.Uniform(t, len(usedList), label+"_aliasof")]
			if q := p ^ 0x1000; q >= 0x20 && q <= 0x1ffe && !used[q] {
				used[q] = true
				usedList = append(usedList, q)
				return q
			}
		}
		for {
			pid := uint16(rapid.IntRange(0x20, 0x1ffe).Draw(t, label))
			if gen.Chance(t, 50, label+"_low") {
				pid = uint16(rapid.IntRange(0x20, 0x40).Draw(t, label+"_l"))
			}
			if !used[pid] {
				used[pid] = true
				usedList = append(usedList, pid)
				return pid
			}
		}
	}
	nPES := 1 + gen.Uniform(t, o.maxPESPIDs, "npes")
	nPMT := 0
	if o.maxPMTPIDs > 0 {
		nPMT = gen.Uniform(t, o.maxPMTPIDs+1, "npmt")
	}
	add := func(u *unitModel) {
		m.units = append(m.units, u)
		if len(m.perPID[u.pid]) == 0 {
			m.pids = append(m.pids, u.pid)
		}
		m.perPID[u.pid] = append(m.perPID[u.pid], u)
	}
	// PAT first when there are PMT PIDs (and sometimes without)
	var pat *ref.Section
	var netPID uint16
	if nPMT > 0 || gen.Chance(t, 30, "patanyway") {
		pd := &astits.PATData{TransportStreamID: uint16(gen.EdgeU(t, 16, "tsid"))}
		for i := 0; i < nPMT; i++ {
			pid := drawPID(fmt.Sprintf("pmtpid%d", i))
			m.pmtPIDs[pid] = true
			pd.Programs = append(pd.Programs, &astits.PATProgram{ProgramNumber: uint16(1 + i), ProgramMapID: pid})
		}
		if gen.Chance(t, 30, "nitentry") {
			pd.Programs = append([]*astits.PATProgram{{ProgramNumber: 0, ProgramMapID: 0x10}}, pd.Programs...)
		} else if o.networkPID && gen.Chance(t, 50, "netpid") {
			netPID = drawPID("netpid")
			pd.Programs = append([]*astits.PATProgram{{ProgramNumber: 0, ProgramMapID: netPID}}, pd.Programs...)
		}
		pat = &ref.Section{TableID: 0, CurrentNext: true, Version: uint8(gen.EdgeU(t, 5, "patver")), PAT: pd}
		patSecs := []*ref.Section{pat}
		if len(pd.Programs) >= 2 && gen.Chance(t, 40, "pat2sections") {
			// the programme list spread over two sections of the same unit
			k := 1 + gen.Uniform(t, len(pd.Programs)-1, "patsplit")
			a := &ref.Section{TableID: 0, CurrentNext: true, Version: pat.Version, Number: 0, Last: 1, PAT: &astits.PATData{TransportStreamID: pd.TransportStreamID, Programs: pd.Programs[:k]}}
			b := &ref.Section{TableID: 0, CurrentNext: true, Version: pat.Version, Number: 1, Last: 1, PAT: &astits.PATData{TransportStreamID: pd.TransportStreamID, Programs: pd.Programs[k:]}}
			patSecs = []*ref.Section{a, b}
		}
		nu := 1 + gen.Uniform(t, min(o.maxUnits, 3), "npat")
		for i := 0; i < nu; i++ {
			add(drawPSIUnit(t, 0, gen.KindPAT, ccOf(0), o, patSecs, fmt.Sprintf("pat%d", i)))
		}
	}
	pmtList := make([]uint16, 0, len(m.pmtPIDs))
	for pid := range m.pmtPIDs {
		pmtList = append(pmtList, pid)
	}
	sort.Slice(pmtList, func(i, j int) bool { return pmtList[i] < pmtList[j] })
	for _, pid := range pmtList {
		nu := 1 + gen.Uniform(t, o.maxUnits, fmt.Sprintf("nu_%x", pid))
		for i := 0; i < nu; i++ {
			add(drawPSIUnit(t, pid, gen.KindPMT, ccOf(pid), o, nil, fmt.Sprintf("pmt%x_%d", pid, i)))
		}
	}
	for i := 0; i < nPES; i++ {
		pid := drawPID(fmt.Sprintf("pespid%d", i))
		nu := 1 + gen.Uniform(t, o.maxUnits, fmt.Sprintf("nu_%x", pid))
		for k := 0; k < nu; k++ {
			add(drawPESUnit(t, pid, ccOf(pid), o, fmt.Sprintf("pes%x_%d", pid, k)))
		}
	}
	if gen.Chance(t, 30, "privatepid") {
		// a PID carrying private data whose units begin with near misses of the PES start code: nothing may be delivered
		pid := drawPID("privpid")
		nu := 1 + gen.Uniform(t, 3, "nupriv")
		for k := 0; k < nu; k++ {
			u := &unitModel{pid: pid, kind: unitPrivate}
			prefix := [][]byte{{0x01, 0x00, 0x01}, {0x00, 0x01, 0x01}, {0x00, 0x00, 0x00}, {0x00, 0x00, 0x02}, {0x80, 0x00, 0x01}, {0x00, 0x80, 0x01}, {0x00, 0x00, 0x81}, {0x02, 0x00, 0x01}, {0x00, 0x02, 0x01}, {0xff, 0xff, 0xff}}[gen.Uniform(t, 10, "privprefix")]
			u.payload = append(append([]byte{}, prefix...), gen.Bytes(t, rapid.IntRange(0, 400).Draw(t, "privlen"), "privbody")...)
			u.packets = ref.PacketizeUnit(pid, u.payload, ccOf(pid), ref.PktOpts{Sizes: chunking(t, len(u.payload), 0, "privch")})
			add(u)
		}
	}
	if netPID != 0 {
		for i, nu := 0, 1+gen.Uniform(t, 3, "nunet"); i < nu; i++ {
			u := drawPSIUnit(t, netPID, gen.KindNIT, ccOf(netPID), o, nil, fmt.Sprintf("net%d", i))
			u.kind, u.expect, u.sections = unitPrivate, nil, nil
			add(u)
		}
	}
	if o.siPIDs {
		for _, k := range siKinds {
			if gen.Chance(t, 25, fmt.Sprintf("si%d", k)) {
				pid := gen.StandardPID(k)
				nu := 1 + gen.Uniform(t, 2, fmt.Sprintf("nu_si%d", k))
				for i := 0; i < nu; i++ {
					add(drawPSIUnit(t, pid, k, ccOf(pid), o, nil, fmt.Sprintf("si%d_%d", k, i)))
				}
			}
		}
	}
	// interleave: the first PAT unit goes first, everything else is merged order-preservingly per PID
	queues := map[uint16][]*streamPacket{}
	for _, u := range m.units {
		for i, p := range u.packets {
			queues[u.pid] = append(queues[u.pid], &streamPacket{p: p, unit: u, idx: i})
		}
	}
	var order []uint16
	for _, pid := range m.pids {
		order = append(order, pid)
	}
	emit := func(sp *streamPacket) {
		sp.raw = sp.p.MustEncode()
		m.packets = append(m.packets, sp)
	}
	if netPID != 0 && gen.Bool(t, "netfirst") {
		// a whole unit of the network PID before the PAT that names it
		for _, sp := range queues[netPID][:len(m.perPID[netPID][0].packets)] {
			emit(sp)
		}
		queues[netPID] = queues[netPID][len(m.perPID[netPID][0].packets):]
	}
	if pat != nil {
		first := m.perPID[0][0]
		// the leading packets (never the final one) of a PMT PID's first unit may arrive before the PAT is complete:
		// the unit is recognised as long as the PAT has been delivered when its final packet is read
		var early uint16
		earlyLeft := 0
		if gen.Chance(t, 30, "pmtearly") {
			for _, pid := range pmtList {
				if us := m.perPID[pid]; len(us) > 0 && len(us[0].packets) >= 2 {
					early, earlyLeft = pid, rapid.IntRange(1, len(us[0].packets)-1).Draw(t, "pmtearlyn")
					break
				}
			}
		}
		for i := range first.packets {
			if earlyLeft > 0 && (i > 0 || gen.Bool(t, "pmtearlyfirst")) {
				n := rapid.IntRange(1, earlyLeft).Draw(t, "pmtearlyk")
				for ; n > 0; n-- {
					emit(queues[early][0])
					queues[early] = queues[early][1:]
					earlyLeft--
				}
			}
			emit(queues[0][0])
			queues[0] = queues[0][1:]
		}
	}
	lastCC := map[uint16]uint8{}
	var zcc uint8
	for {
		var live []uint16
		for _, pid := range order {
			if len(queues[pid]) > 0 {
				live = append(live, pid)
			}
		}
		if len(live) == 0 {
			break
		}
		pid := live[gen.Uniform(t, len(live), "pick")]
		// bursts: keep taking from the same PID for a while
		n := 1
		if gen.Chance(t, 40, "burst") {
			n = rapid.IntRange(1, 6).Draw(t, "burstlen")
		}
		for ; n > 0 && len(queues[pid]) > 0; n-- {
			sp := queues[pid][0]
			queues[pid] = queues[pid][1:]
			emit(sp)
			lastCC[pid] = sp.p.CC
			if o.noise && gen.Chance(t, 12, "noise") {
				nk := gen.Uniform(t, 3, "noisek")
				if o.zeroPayload && gen.Chance(t, 30, "noisezero") {
					nk = 3
				}
				if o.teiNoise && gen.Chance(t, 30, "noisetei") {
					nk = 4
				}
				switch nk {
				case 4:
					emit(&streamPacket{p: &ref.TSPacket{PID: 0x1ffc, TEI: true, PUSI: gen.Bool(t, "teipusi"), HasPayload: true, CC: uint8(rapid.IntRange(0, 15).Draw(t, "teicc")), Payload: gen.Bytes(t, 184, "teipayload")}})
				case 3:
					zcc = (zcc + 1) & 0xf
					emit(&streamPacket{p: &ref.TSPacket{PID: 0x1ffd, PUSI: true, HasAF: true, AF: &ref.AF{Stuffing: 182}, HasPayload: true, CC: zcc}})
				case 0:
					emit(&streamPacket{p: ref.NullPacket(byte(rapid.SampledFrom([]int{0xff, 0x00, 0x47}).Draw(t, "nullfill")))})
				case 1:
					// CAT packet: private content, must produce nothing
					emit(&streamPacket{p: &ref.TSPacket{PID: 1, PUSI: true, HasPayload: true, CC: uint8(rapid.IntRange(0, 15).Draw(t, "catcc")), Payload: gen.Bytes(t, 184, "cat")}})
				default:
					// adaptation-field-only packet on a PID of the stream: continuity_counter is not incremented
					af := gen.AF(t, 184, gen.AFOpts{NoDisc: true}, "afonly")
					af.Stuffing = 184 - af.Size()
					emit(&streamPacket{p: &ref.TSPacket{PID: pid, HasAF: true, CC: lastCC[pid], AF: af}})
				}
			}
		}
	}
	return m
}

// comparePerPID compares delivered data with the model per PID; it returns the first difference or "".
func comparePerPID(got []*astits.DemuxerData, want map[uint16][]*astits.DemuxerData) string {
	g := byPID(got)
	for pid, ws := range want {
		gs := g[pid]
		for i := range ws {
			if i >= len(gs) {
				return fmt.Sprintf("PID %#x: %d items delivered, %d carried by the stream; first missing: %s", pid, len(gs), len(ws), obs.Trunc(obs.Canon(ws[i]), 400))
			}
			if a, b := obs.Canon(gs[i]), obs.Canon(ws[i]); a != b {
				return fmt.Sprintf("PID %#x item %d differs:\n%s", pid, i, obs.Diff(a, b))
			}
		}
		if len(gs) > len(ws) {
			return fmt.Sprintf("PID %#x: %d items delivered, %d carried by the stream; first extra: %s", pid, len(gs), len(ws), obs.Trunc(obs.Canon(gs[len(ws)]), 400))
		}
	}
	for pid, gs := range g {
		if _, ok := want[pid]; !ok {
			return fmt.Sprintf("PID %#x: %d items delivered but the stream carries no unit there: %s", pid, len(gs), obs.Trunc(obs.Canon(gs[0]), 400))
		}
	}
	return ""
}

func (m *streamModel) describe() string {
	s := fmt.Sprintf("%d packets, %d units;", len(m.packets), len(m.units))
	for _, pid := range m.pids {
		s += fmt.Sprintf(" PID %#x:", pid)
		for _, u := range m.perPID[pid] {
			if u.kind == unitPES {
				s += fmt.Sprintf(" PES(%dB/%dpk len=%d)", len(u.payload), len(u.packets), u.pes.EncodedLength())
			} else if u.kind == unitPrivate {
				s += fmt.Sprintf(" private(%dB/%dpk starts %x)", len(u.payload), len(u.packets), u.payload[:3])
			} else {
				s += fmt.Sprintf(" %s(%dsec/%dB/%dpk)", kindNames[u.tableKnd], len(u.sections), len(u.payload), len(u.packets))
			}
		}
		s += ";"
	}
	return s
}

func (m *streamModel) order() string {
	s := ""
	for i, sp := range m.packets {
		if i > 0 {
			s += " "
		}
		if sp.unit == nil {
			s += fmt.Sprintf("%x*", sp.p.PID)
		} else {
			s += fmt.Sprintf("%x", sp.p.PID)
		}
		if i > 120 {
			s += " ..."
			break
		}
	}
	return s
}
