package checks

import (
	"bytes"
	"context"
	"encoding/hex"
	"fmt"
	"testing"

	astits "github.com/asticode/go-astits"
	"pgregory.net/rapid"

	"verifharness/conv"
	"verifharness/gen"
	"verifharness/obs"
	"verifharness/ref"
)

// C11 — TS packet header and adaptation field are read and written per ISO 13818-1.

// fields the parser documents as not being part of the TS format
var c11Skip = []string{"IsOneByteStuffing"}

func nextPacketOf(b []byte) (*astits.Packet, error) {
	d := astits.NewDemuxer(context.Background(), bytes.NewReader(b), astits.DemuxerOptPacketSize(188))
	return d.NextPacket()
}

func writePacketOf(p *astits.Packet) ([]byte, int, error) {
	var buf cappedBuffer
	m := astits.NewMuxer(context.Background(), &buf)
	n, err := m.WritePacket(p)
	return buf.Bytes(), n, err
}

// c11Check runs the three oracles on one model.
func c11Check(m *ref.TSPacket) error {
	enc, err := m.Encode()
	if err != nil {
		return fmt.Errorf("harness: model does not encode: %v", err)
	}
	// (a) parse
	got, err := nextPacketOf(enc)
	if err != nil {
		return fmt.Errorf("NextPacket(%x) error: %v", enc, err)
	}
	want := conv.PacketStruct(m, true)
	if g, w := obs.Canon(got, c11Skip...), obs.Canon(want, c11Skip...); g != w {
		return fmt.Errorf("NextPacket(%x):\n%s", enc, obs.Diff(g, w))
	}
	// (b) write
	out, n, err := writePacketOf(conv.PacketStruct(m, false))
	if err != nil || n != 188 || !bytes.Equal(out, enc) {
		return fmt.Errorf("WritePacket(model) = %x (n=%d err=%v)\nreference                 %x", out, n, err, enc)
	}
	// (c) re-emission of the parsed packet
	out, n, err = writePacketOf(got)
	if err != nil || n != 188 || !bytes.Equal(out, enc) {
		return fmt.Errorf("re-emitting the packet returned by NextPacket = %x (n=%d err=%v)\noriginal                                         %x", out, n, err, enc)
	}
	// (d) the lengths the parser derives (adaptation_field_length, extension length) are not inputs of the writer: a
	// struct that carries stale values for them (a parsed packet edited by the caller) is written from its content
	if m.HasAF && !m.AF.Empty {
		p := conv.PacketStruct(m, false)
		stale := int(enc[5]) ^ 0x55 // a value derived from the packet, different from the true length for all lengths
		p.AdaptationField.Length = stale
		if x := p.AdaptationField.AdaptationExtensionField; x != nil {
			x.Length = stale & 0x7f
		}
		conv.StrayAF(p.AdaptationField) // and values left in the fields whose flags are off
		out, n, err = writePacketOf(p)
		if err != nil || n != 188 || !bytes.Equal(out, enc) {
			return fmt.Errorf("WritePacket(model with stale derived Length fields %d and values in the fields whose flags are off) = %x (n=%d err=%v)\nreference %x", stale, out, n, err, enc)
		}
	}
	return nil
}

func tsNontrivial(m *ref.TSPacket) bool {
	return m.HasAF && !m.AF.Empty && (m.AF.PCR != nil || m.AF.OPCR != nil || m.AF.Splice != nil || m.AF.HasPrivate || m.AF.Ext != nil)
}

func TestC11Packets(t *testing.T) {
	rec := obs.NewRecorder("C11", "packets", "rapid-generated conformant packets (any header, adaptation_field_control 01/10/11, empty/flags-only/full adaptation fields with any subset of PCR, OPCR, splice countdown, private data, extension{LTW, piecewise rate, seamless splice}, any stuffing, payload filling the rest; numeric fields biased to 0, all-ones and single-bit values); four oracles per packet: NextPacket(reference bytes)==model, WritePacket(model)==reference bytes, WritePacket(NextPacket(bytes))==bytes, WritePacket(model with stale values in the derived Length fields and values left in the fields whose flags are off)==reference bytes; non-trivial = adaptation field with at least one optional part; distinct by packet bytes")
	defer rec.Flush()
	rapid.Check(t, func(t *rapid.T) {
		m := gen.TSPacket(t, "p")
		if err := c11Check(m); err != nil {
			t.Fatalf("%v\nmodel: %s", err, obs.Canon(m))
		}
		enc := m.MustEncode()
		h := obs.NewHasher()
		h.Bytes(enc)
		rec.Case(h.Sum(), tsNontrivial(m), func() interface{} {
			return map[string]interface{}{"packet_head": hex.EncodeToString(enc[:40]), "model": obs.Trunc(obs.Canon(m), 600)}
		})
		if m.HasAF {
			a := m.AF
			switch {
			case a.Empty:
				rec.Class("af_length_0")
			case a.Ext != nil && a.Ext.Seamless != nil:
				rec.Class("af_ext_seamless")
			}
			if a.Ext != nil {
				rec.Class("af_ext")
			}
			if a.HasPrivate {
				rec.Class("af_private")
			}
			if a.PCR != nil {
				rec.Class("af_pcr")
			}
			if !m.HasPayload {
				rec.Class("afc_10")
			} else {
				rec.Class("afc_11")
				if len(m.Payload) == 1 {
					rec.Class("one_payload_byte")
				}
			}
		} else {
			rec.Class("afc_01")
		}
	})
}

// TestC11Sweep enumerates the small header domains completely and every single-bit value of the wide fields.
func TestC11Sweep(t *testing.T) {
	rec := obs.NewRecorder("C11", "sweep", "deterministic sweeps: all 2^13 PIDs; all 16 counters x 4 scrambling values x 8 flag combinations x adaptation_field_control; every single-bit and all-ones value of PCR/OPCR base (33) and extension (9), splice countdown (8), LTW offset (15), piecewise rate (22), seamless DTS (33), splice type (4); every adaptation_field_length 0..183 as pure stuffing; every private data length that fits; all 32 x 8 subsets of optional parts")
	defer rec.Flush()
	payload := func(n int) []byte {
		b := make([]byte, n)
		for i := range b {
			b[i] = byte(i*7 + 1)
		}
		return b
	}
	run := func(m *ref.TSPacket) {
		if err := c11Check(m); err != nil {
			t.Fatalf("%v\nmodel: %s", err, obs.Canon(m))
		}
		rec.Enumerated(1)
	}
	for pid := 0; pid < 1<<13; pid++ {
		run(&ref.TSPacket{PID: uint16(pid), HasPayload: true, CC: uint8(pid % 16), Payload: payload(184)})
	}
	for cc := 0; cc < 16; cc++ {
		for tsc := 0; tsc < 4; tsc++ {
			for fl := 0; fl < 8; fl++ {
				for afc := 1; afc <= 3; afc++ {
					m := &ref.TSPacket{TEI: fl&1 != 0, PUSI: fl&2 != 0, Prio: fl&4 != 0, PID: 0x1abc, TSC: uint8(tsc), CC: uint8(cc)}
					switch afc {
					case 1:
						m.HasPayload, m.Payload = true, payload(184)
					case 2:
						m.HasAF, m.AF = true, &ref.AF{Stuffing: 182}
					case 3:
						m.HasAF, m.HasPayload, m.AF, m.Payload = true, true, &ref.AF{RAI: true, Stuffing: 5}, payload(177)
					}
					run(m)
				}
			}
		}
	}
	// adaptation_field_length 0..183 as pure stuffing
	for l := 0; l <= 183; l++ {
		m := &ref.TSPacket{PID: 0x100, HasAF: true, CC: 3}
		if l == 0 {
			m.AF = &ref.AF{Empty: true}
		} else {
			m.AF = &ref.AF{Stuffing: l - 1}
		}
		if l < 183 {
			m.HasPayload, m.Payload = true, payload(183-l)
		}
		run(m)
	}
	// private data of every length that fits, alone and after a PCR
	for n := 0; n <= 181; n++ {
		run(&ref.TSPacket{PID: 0x101, HasAF: true, HasPayload: n < 181, CC: 1, AF: &ref.AF{HasPrivate: true, Private: payload(n)}, Payload: payload(181 - n)})
		if n <= 175 {
			run(&ref.TSPacket{PID: 0x101, HasAF: true, HasPayload: n < 175, CC: 1, AF: &ref.AF{PCR: &ref.PCR{Base: 1, Ext: 2}, HasPrivate: true, Private: payload(n)}, Payload: payload(175 - n)})
		}
	}
	// wide fields: every single-bit value, all ones, zero
	vals := func(bits uint) []uint64 {
		v := []uint64{0, uint64(1)<<bits - 1}
		for k := uint(0); k < bits; k++ {
			v = append(v, uint64(1)<<k, (uint64(1)<<bits-1)&^(uint64(1)<<k))
		}
		return v
	}
	withAF := func(a *ref.AF) *ref.TSPacket {
		m := &ref.TSPacket{PID: 0x44, HasAF: true, HasPayload: true, CC: 9, AF: a}
		m.Payload = payload(184 - a.Size())
		return m
	}
	for _, b := range vals(33) {
		run(withAF(&ref.AF{PCR: &ref.PCR{Base: b, Ext: 0x155}}))
		run(withAF(&ref.AF{OPCR: &ref.PCR{Base: b, Ext: 0}}))
		run(withAF(&ref.AF{PCR: &ref.PCR{Base: ^b & (1<<33 - 1), Ext: 0x1ff}, OPCR: &ref.PCR{Base: b, Ext: 1}}))
		run(withAF(&ref.AF{Ext: &ref.AFExt{Seamless: &ref.Seamless{Type: 0xa, DTS: b}}}))
	}
	for _, e := range vals(9) {
		run(withAF(&ref.AF{PCR: &ref.PCR{Base: 0x123456789 & (1<<33 - 1), Ext: uint16(e)}}))
		run(withAF(&ref.AF{OPCR: &ref.PCR{Base: 0, Ext: uint16(e)}}))
	}
	for _, s := range vals(8) {
		v := uint8(s)
		run(withAF(&ref.AF{Splice: &v}))
	}
	for _, o := range vals(15) {
		run(withAF(&ref.AF{Ext: &ref.AFExt{LTW: &ref.LTW{Valid: o&1 == 0, Offset: uint16(o)}}}))
	}
	for _, r := range vals(22) {
		v := uint32(r)
		run(withAF(&ref.AF{Ext: &ref.AFExt{Piecewise: &v}}))
	}
	for st := 0; st < 16; st++ {
		run(withAF(&ref.AF{Ext: &ref.AFExt{Seamless: &ref.Seamless{Type: uint8(st), DTS: 0x1aaaaaaaa}}}))
	}
	// all subsets of the 5 optional parts x 3 extension parts x 8 flag combinations
	for parts := 0; parts < 32; parts++ {
		for eparts := 0; eparts < 8; eparts++ {
			for fl := 0; fl < 8; fl++ {
				a := &ref.AF{Disc: fl&1 != 0, RAI: fl&2 != 0, ESPrio: fl&4 != 0}
				if parts&1 != 0 {
					a.PCR = &ref.PCR{Base: 0x1fedcba98, Ext: 0x1a5}
				}
				if parts&2 != 0 {
					a.OPCR = &ref.PCR{Base: 0x012345678, Ext: 0x05a}
				}
				if parts&4 != 0 {
					v := uint8(0x83)
					a.Splice = &v
				}
				if parts&8 != 0 {
					a.HasPrivate, a.Private = true, payload(parts%7)
				}
				if parts&16 != 0 {
					e := &ref.AFExt{}
					if eparts&1 != 0 {
						e.LTW = &ref.LTW{Valid: true, Offset: 0x5aa5}
					}
					if eparts&2 != 0 {
						v := uint32(0x2abcde)
						e.Piecewise = &v
					}
					if eparts&4 != 0 {
						e.Seamless = &ref.Seamless{Type: 5, DTS: 0x1c3c3c3c3}
					}
					a.Ext = e
				} else if eparts != 0 {
					continue
				}
				a.Stuffing = (parts + eparts + fl) % 4
				run(withAF(a))
			}
		}
	}
	rec.SetExhaustive(true)
	rec.Sample(map[string]interface{}{"model": obs.Canon(withAF(&ref.AF{PCR: &ref.PCR{Base: 1 << 32, Ext: 0x155}}).AF)})
}

// TestC11WriteShort: a packet whose payload leaves room is padded with 0xFF to exactly 188 bytes (PSI style).
func TestC11WriteShort(t *testing.T) {
	rec := obs.NewRecorder("C11", "write_short", "rapid: packets without adaptation field and with a payload of 0..184 bytes written through WritePacket: the output is the reference encoding padded with 0xFF to 188 bytes and n == 188; negative splice countdowns are written as two's complement")
	defer rec.Flush()
	rapid.Check(t, func(t *rapid.T) {
		m := &ref.TSPacket{HasPayload: true}
		gen.TSHeader(t, m, "h")
		n := rapid.IntRange(0, 184).Draw(t, "n")
		if gen.Chance(t, 30, "af") {
			m.HasAF = true
			m.AF = gen.AF(t, 60, gen.AFOpts{}, "af")
			if n > 184-m.AF.Size() {
				n = 184 - m.AF.Size()
			}
		}
		m.Payload = gen.Bytes(t, n, "pl")
		enc := m.MustEncode()
		s := conv.PacketStruct(m, false)
		if m.HasAF && m.AF.Splice != nil && *m.AF.Splice >= 128 {
			s.AdaptationField.SpliceCountdown = int(int8(*m.AF.Splice)) // negative countdown
			rec.Class("negative_splice_countdown")
		}
		out, wn, err := writePacketOf(s)
		if err != nil || wn != 188 || !bytes.Equal(out, enc) {
			t.Fatalf("WritePacket = %x (n=%d err=%v)\nreference     %x\nmodel: %s", out, wn, err, enc, obs.Canon(m))
		}
		h := obs.NewHasher()
		h.Bytes(enc)
		rec.Case(h.Sum(), n < 184, func() interface{} {
			return map[string]interface{}{"payload_len": n, "packet_head": hex.EncodeToString(enc[:24])}
		})
	})
}

// TestC11Stream: several packets read one after the other; every packet is compared and re-emitted only after the whole
// stream has been read (a caller may keep packets), so a result that is overwritten by later reads is seen.
func TestC11Stream(t *testing.T) {
	rec := obs.NewRecorder("C11", "stream", "rapid: streams of 2..8 generated conformant packets read with NextPacket until ErrNoMorePackets; only then each returned packet is compared with its model and re-emitted through WritePacket (byte-identical); non-trivial = at least two packets with optional adaptation field parts; distinct by stream bytes")
	defer rec.Flush()
	rapid.Check(t, func(t *rapid.T) {
		n := rapid.IntRange(2, 8).Draw(t, "n")
		var ms []*ref.TSPacket
		var stream []byte
		nt := 0
		for i := 0; i < n; i++ {
			m := gen.TSPacket(t, fmt.Sprintf("p%d", i))
			ms = append(ms, m)
			stream = append(stream, m.MustEncode()...)
			if tsNontrivial(m) {
				nt++
			}
		}
		d := astits.NewDemuxer(context.Background(), bytes.NewReader(stream), astits.DemuxerOptPacketSize(188))
		var got []*astits.Packet
		for {
			p, err := d.NextPacket()
			if err == astits.ErrNoMorePackets {
				break
			}
			if err != nil {
				t.Fatalf("NextPacket #%d error: %v\nstream %x", len(got), err, stream)
			}
			got = append(got, p)
			if len(got) > n {
				t.Fatalf("more packets than the stream holds")
			}
		}
		if len(got) != n {
			t.Fatalf("%d packets returned, stream holds %d", len(got), n)
		}
		// all packets are re-emitted through ONE Muxer that has already written tables and a PES (its internal scratch
		// buffers are not fresh), interleaved with further WriteData calls
		var sink cappedBuffer
		mx := astits.NewMuxer(context.Background(), &sink)
		_ = mx.AddElementaryStream(astits.PMTElementaryStream{ElementaryPID: 0x1ee0, StreamType: astits.StreamTypeH264Video})
		mx.SetPCRPID(0x1ee0)
		pes := func() {
			_, _ = mx.WriteData(&astits.MuxerData{PID: 0x1ee0, PES: &astits.PESData{Header: &astits.PESHeader{StreamID: 0xe0, OptionalHeader: &astits.PESOptionalHeader{MarkerBits: 2, PTSDTSIndicator: 2, PTS: &astits.ClockReference{Base: 1}}}, Data: []byte{1, 2, 3, 4, 5}}})
		}
		pes()
		for i, m := range ms {
			enc := stream[i*188 : (i+1)*188]
			if g, w := obs.Canon(got[i], c11Skip...), obs.Canon(conv.PacketStruct(m, true), c11Skip...); g != w {
				t.Fatalf("packet %d of %d, compared after the whole stream was read:\n%s\npacket %x", i, n, obs.Diff(g, w), enc)
			}
			before := sink.Len()
			wn, err := mx.WritePacket(got[i])
			out := sink.Bytes()[before:]
			if err != nil || wn != 188 || !bytes.Equal(out, enc) {
				t.Fatalf("re-emitting packet %d (after the whole stream was read, through a Muxer that has written other data before) = %x (n=%d err=%v)\noriginal %x", i, out, wn, err, enc)
			}
			if i%3 == 1 {
				pes()
			}
		}
		h := obs.NewHasher()
		h.Bytes(stream)
		rec.Case(h.Sum(), nt >= 2, func() interface{} {
			return map[string]interface{}{"packets": n, "with_optional_af_parts": nt, "first_packet_head": hex.EncodeToString(stream[:32])}
		})
	})
}

// FuzzC11: coverage-guided differential fuzzing of the packet layer. Arbitrary 188-byte packets are first given to the
// independent strict decoder; for every packet it accepts as conformant (and that has no reserved bytes inside the
// adaptation field extension), NextPacket must return the struct the decoded model implies and WritePacket of that
// struct must reproduce the bytes.
func FuzzC11(f *testing.F) {
	seed := func(m *ref.TSPacket) { f.Add(m.MustEncode()[1:]) }
	pl := make([]byte, 184)
	seed(&ref.TSPacket{PID: 0x100, HasPayload: true, CC: 1, Payload: pl})
	v := uint8(3)
	pw := uint32(0x12345)
	seed(&ref.TSPacket{PID: 0x101, PUSI: true, HasAF: true, HasPayload: true, CC: 2, AF: &ref.AF{RAI: true, PCR: &ref.PCR{Base: 1 << 32, Ext: 300}, OPCR: &ref.PCR{Base: 5, Ext: 1}, Splice: &v, HasPrivate: true, Private: []byte{1, 2, 3},
		Ext: &ref.AFExt{LTW: &ref.LTW{Valid: true, Offset: 0x7fff}, Piecewise: &pw, Seamless: &ref.Seamless{Type: 9, DTS: 0x1ffffffff}}, Stuffing: 4}, Payload: pl[:130]})
	seed(&ref.TSPacket{PID: 0x1fff, HasAF: true, AF: &ref.AF{Stuffing: 182}})
	seed(&ref.TSPacket{PID: 0, HasAF: true, HasPayload: true, AF: &ref.AF{Empty: true}, Payload: pl[:183]})
	f.Fuzz(func(t *testing.T, rest []byte) {
		if len(rest) != 187 {
			return
		}
		pkt := append([]byte{0x47}, rest...)
		m, err := ref.DecodeTS(pkt)
		if err != nil || (m.HasAF && m.AF.Ext != nil && m.AF.Ext.Reserved > 0) {
			// not conformant: only panic-freedom
			_, _ = nextPacketOf(pkt)
			return
		}
		// reserved bits must be 1 for byte-identical re-emission: compare with the canonical re-encoding
		if !bytes.Equal(m.MustEncode(), pkt) {
			_, _ = nextPacketOf(pkt)
			return
		}
		if err := c11Check(m); err != nil {
			t.Fatalf("%v\npacket %x", err, pkt)
		}
	})
}
