package checks

import (
	"bytes"
	"context"
	"fmt"
	"io"
	"time"

	astits "github.com/asticode/go-astits"
)

// demuxResult is everything a caller loop observes from NextData.
type demuxResult struct {
	items []*astits.DemuxerData
	errs  []error
	calls int
	ended bool // ErrNoMorePackets reached
}

// demuxAllR drives NextData on a reader until ErrNoMorePackets, continuing after errors, bounded by maxCalls.
func demuxAllR(r io.Reader, maxCalls int, opts ...func(*astits.Demuxer)) (res demuxResult) {
	guarded("demultiplexing", func() { res = demuxAllUnguarded(r, maxCalls, opts...) })
	return
}

func demuxAllUnguarded(r io.Reader, maxCalls int, opts ...func(*astits.Demuxer)) (res demuxResult) {
	d := astits.NewDemuxer(context.Background(), r, opts...)
	for res.calls < maxCalls {
		res.calls++
		x, err := d.NextData()
		if err == astits.ErrNoMorePackets {
			res.ended = true
			return
		}
		if err != nil {
			res.errs = append(res.errs, err)
			continue
		}
		res.items = append(res.items, x)
	}
	return
}

// demuxAll demuxes a 188-byte-packet stream held in memory.
func demuxAll(b []byte, opts ...func(*astits.Demuxer)) demuxResult {
	opts = append([]func(*astits.Demuxer){astits.DemuxerOptPacketSize(188)}, opts...)
	return demuxAllR(bytes.NewReader(b), len(b)/188+64, opts...)
}

// byPID groups delivered data per PID, keeping order.
func byPID(items []*astits.DemuxerData) map[uint16][]*astits.DemuxerData {
	m := map[uint16][]*astits.DemuxerData{}
	for _, it := range items {
		m[it.PID] = append(m[it.PID], it)
	}
	return m
}

func errStrings(errs []error) string {
	s := ""
	for i, e := range errs {
		if i > 0 {
			s += " | "
		}
		s += e.Error()
	}
	return s
}

func hexHead(b []byte, n int) string {
	if len(b) <= n {
		return fmt.Sprintf("%x", b)
	}
	return fmt.Sprintf("%x...(%d bytes)", b[:n], len(b))
}

// hangLimit bounds a single library call sequence that normally takes micro- to milliseconds. A call that has not
// returned after this long is reported as non-termination (the goroutine is abandoned).
const hangLimit = 20 * time.Second

// guarded runs f and panics (rapid and the sweeps report a panic as a failure) when it does not return in time.
func guarded(what string, f func()) {
	done := make(chan struct{})
	var p interface{}
	go func() {
		defer func() {
			p = recover()
			close(done)
		}()
		f()
	}()
	select {
	case <-done:
		if p != nil {
			panic(p)
		}
	case <-time.After(hangLimit):
		panic(fmt.Sprintf("%s did not return within %v: the library call does not terminate", what, hangLimit))
	}
}

// cappedBuffer is a bytes.Buffer that refuses to grow beyond outputLimit: a Muxer stuck in a packet loop is reported
// instead of exhausting the machine's memory.
type cappedBuffer struct{ bytes.Buffer }

func (c *cappedBuffer) Write(p []byte) (int, error) {
	if c.Len() > outputLimit {
		panic(fmt.Sprintf("the Muxer has written more than %d bytes: runaway packet loop", outputLimit))
	}
	return c.Buffer.Write(p)
}
