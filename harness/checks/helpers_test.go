package checks

import (
	"bytes"
	"context"
	"fmt"
	"io"

	astits "github.com/asticode/go-astits"
)

// demuxResult is everything a caller loop observes from NextData.
type demuxResult struct {
	items []*astits.DemuxerData
	errs  []error
	calls int
	ended bool // ErrNoMorePackets reached
}

// demuxAllR drives NextData on a reader until ErrNoMorePackets, continuing after errors, bounded by maxCalls.
func demuxAllR(r io.Reader, maxCalls int, opts ...func(*astits.Demuxer)) (res demuxResult) {
	d := astits.NewDemuxer(context.Background(), r, opts...)
	for res.calls < maxCalls {
		res.calls++
		x, err := d.NextData()
		if err == astits.ErrNoMorePackets {
			res.ended = true
			return
		}
		if err != nil {
			res.errs = append(res.errs, err)
			continue
		}
		res.items = append(res.items, x)
	}
	return
}

// demuxAll demuxes a 188-byte-packet stream held in memory.
func demuxAll(b []byte, opts ...func(*astits.Demuxer)) demuxResult {
	opts = append([]func(*astits.Demuxer){astits.DemuxerOptPacketSize(188)}, opts...)
	return demuxAllR(bytes.NewReader(b), len(b)/188+64, opts...)
}

// byPID groups delivered data per PID, keeping order.
func byPID(items []*astits.DemuxerData) map[uint16][]*astits.DemuxerData {
	m := map[uint16][]*astits.DemuxerData{}
	for _, it := range items {
		m[it.PID] = append(m[it.PID], it)
	}
	return m
}

func errStrings(errs []error) string {
	s := ""
	for i, e := range errs {
		if i > 0 {
			s += " | "
		}
		s += e.Error()
	}
	return s
}

func hexHead(b []byte, n int) string {
	if len(b) <= n {
		return fmt.Sprintf("%x", b)
	}
	return fmt.Sprintf("%x...(%d bytes)", b[:n], len(b))
}
