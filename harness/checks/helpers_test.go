package checks

import (
	"bytes"
	"context"
	"fmt"
	"io"
	"syscall"
	"time"

	astits "github.com/asticode/go-astits"
)

// demuxResult is everything a caller loop observes from NextData.
type demuxResult struct {
	items []*astits.DemuxerData
	errs  []error
	calls int
	ended bool // ErrNoMorePackets reached
}

// demuxAllR drives NextData on a reader until ErrNoMorePackets, continuing after errors, bounded by maxCalls.
func demuxAllR(r io.Reader, maxCalls int, opts ...func(*astits.Demuxer)) (res demuxResult) {
	guarded("demultiplexing", func() { res = demuxAllUnguarded(r, maxCalls, opts...) })
	return
}

func demuxAllUnguarded(r io.Reader, maxCalls int, opts ...func(*astits.Demuxer)) (res demuxResult) {
	d := astits.NewDemuxer(context.Background(), r, opts...)
	for res.calls < maxCalls {
		res.calls++
		x, err := d.NextData()
		if err == astits.ErrNoMorePackets {
			res.ended = true
			return
		}
		if err != nil {
			res.errs = append(res.errs, err)
			continue
		}
		res.items = append(res.items, x)
	}
	return
}

// demuxAll demuxes a 188-byte-packet stream held in memory.
func demuxAll(b []byte, opts ...func(*astits.Demuxer)) demuxResult {
	opts = append([]func(*astits.Demuxer){astits.DemuxerOptPacketSize(188)}, opts...)
	return demuxAllR(bytes.NewReader(b), len(b)/188+64, opts...)
}

// byPID groups delivered data per PID, keeping order.
func byPID(items []*astits.DemuxerData) map[uint16][]*astits.DemuxerData {
	m := map[uint16][]*astits.DemuxerData{}
	for _, it := range items {
		m[it.PID] = append(m[it.PID], it)
	}
	return m
}

func errStrings(errs []error) string {
	s := ""
	for i, e := range errs {
		if i > 0 {
			s += " | "
		}
		s += e.Error()
	}
	return s
}

func hexHead(b []byte, n int) string {
	if len(b) <= n {
		return fmt.Sprintf("%x", b)
	}
	return fmt.Sprintf("%x...(%d bytes)", b[:n], len(b))
}

// hangLimit bounds a single library call sequence that normally takes micro- to milliseconds. A call is reported as
// non-termination (the goroutine is abandoned) when it has not returned after hangLimit AND this process has burnt at
// least hangCPU of processor time since the call began - so a starved process on an overloaded machine is not mistaken
// for a spinning library - or, whatever the processor time (a blocked call), after hangWall.
const (
	hangLimit = 20 * time.Second
	hangCPU   = 15 * time.Second
	hangWall  = 10 * time.Minute
)

func processCPU() time.Duration {
	var ru syscall.Rusage
	if syscall.Getrusage(syscall.RUSAGE_SELF, &ru) != nil {
		return 0
	}
	return time.Duration(ru.Utime.Nano() + ru.Stime.Nano())
}

// guarded runs f and panics (rapid and the sweeps report a panic as a failure) when it does not return in time.
func guarded(what string, f func()) {
	done := make(chan struct{})
	var p interface{}
	cpu0, t0 := processCPU(), time.Now()
	go func() {
		defer func() {
			p = recover()
			close(done)
		}()
		f()
	}()
	timer := time.NewTimer(hangLimit)
	defer timer.Stop()
	for {
		select {
		case <-done:
			if p != nil {
				panic(p)
			}
			return
		case <-timer.C:
			if cpu := processCPU() - cpu0; cpu >= hangCPU || time.Since(t0) >= hangWall {
				panic(fmt.Sprintf("%s did not return within %v (%v of processor time): the library call does not terminate", what, time.Since(t0).Round(time.Second), cpu.Round(time.Second)))
			}
			timer.Reset(5 * time.Second)
		}
	}
}

// cappedBuffer is a bytes.Buffer that refuses to grow beyond outputLimit: a Muxer stuck in a packet loop is reported
// instead of exhausting the machine's memory.
type cappedBuffer struct{ bytes.Buffer }

func (c *cappedBuffer) Write(p []byte) (int, error) {
	if c.Len() > outputLimit {
		panic(fmt.Sprintf("the Muxer has written more than %d bytes: runaway packet loop", outputLimit))
	}
	return c.Buffer.Write(p)
}
