package checks

import (
	"bufio"
	"bytes"
	"context"
	"fmt"
	"io"
	"testing"

	astits "github.com/asticode/go-astits"
	"pgregory.net/rapid"

	"verifharness/gen"
	"verifharness/obs"
	"verifharness/ref"
)

// C08 — Demuxer output depends on the stream's bytes, not on how they are read or framed.

// frame re-frames a 188-byte-packet stream into 188+k byte records the way the library reads oversized packets: the
// sync byte, k extra bytes, then the remaining 187 bytes.
func frame(stream []byte, k int, extra func(i int) byte) []byte {
	if k == 0 {
		return stream
	}
	var out []byte
	for i := 0; i+188 <= len(stream); i += 188 {
		out = append(out, 0x47)
		for j := 0; j < k; j++ {
			out = append(out, extra(i/188*k+j))
		}
		out = append(out, stream[i+1:i+188]...)
	}
	return out
}

type c08Cfg struct {
	k        int  // record size 188+k
	explicit bool // packet size option given
	reader   int  // rkPlain, rkSeek, rkBufio
	chunk    int  // 0 = unlimited
	sched    []int
	eofData  bool // the last bytes arrive together with io.EOF
	bufSize  int  // size of the bufio.Reader's buffer (0 = 4096)
}

func (c c08Cfg) bufio() int {
	if c.bufSize == 0 {
		return 4096
	}
	return c.bufSize
}

func (c c08Cfg) String() string {
	return fmt.Sprintf("records of %d bytes, explicit size=%v, %s reader, chunk=%d, first reads=%v, EOF with the last bytes=%v", 188+c.k, c.explicit, rkNames[c.reader], c.chunk, c.sched, c.eofData) + fmt.Sprintf(", bufio size=%d", c.bufio())
}

// c08Outputs returns the canonical NextPacket and NextData sequences under a configuration.
func c08Outputs(data []byte, c c08Cfg) (pkts []string, items []string, errs []string) {
	mk := func() (io.Reader, []func(*astits.Demuxer)) {
		fr := &faultReader{data: data, failAt: -1, chunk: c.chunk, sched: c.sched, eofData: c.eofData}
		var r io.Reader = fr
		switch c.reader {
		case rkSeek:
			if c.chunk == 0 && len(c.sched) == 0 && !c.eofData {
				r = bytes.NewReader(data)
			} else {
				r = seekFaultReader{fr}
			}
		case rkBufio:
			r = bufio.NewReaderSize(fr, c.bufio())
		}
		var opts []func(*astits.Demuxer)
		if c.explicit {
			opts = append(opts, astits.DemuxerOptPacketSize(188+c.k))
		}
		return r, opts
	}
	r, opts := mk()
	d := astits.NewDemuxer(context.Background(), r, opts...)
	for i := 0; i < len(data)/188+64; i++ {
		p, err := d.NextPacket()
		if err == astits.ErrNoMorePackets {
			break
		}
		if err != nil {
			errs = append(errs, "NextPacket: "+err.Error())
			continue
		}
		pkts = append(pkts, obs.Canon(p))
	}
	r, opts = mk()
	res := demuxAllR(r, len(data)/188+64, opts...)
	for _, e := range res.errs {
		errs = append(errs, "NextData: "+e.Error())
	}
	for _, it := range res.items {
		items = append(items, obs.Canon(it))
	}
	return
}

func TestC08Reading(t *testing.T) {
	rec := obs.NewRecorder("C08", "reading", "rapid: well-formed streams (>= 2 packets, a null packet first) x ~25 configurations each: read schedules {unlimited, fixed chunk 1..400, random first reads; io.EOF reported with the last bytes or by a separate Read} x reader {plain, seekable, bufio.Reader with a buffer of 16..4096 bytes} x {explicit size, auto-detection} x record size 188+k (k in 0..4 with auto-detection, k in {0,4,16,1..64} explicit; sync byte + k extra bytes + 187 bytes); oracle: the NextPacket and NextData sequences equal those of the reference configuration (explicit 188, bytes.Reader, unfragmented); for a plain non-seekable reader with auto-detection (documented to consume the detection window) the chunked run must equal the unchunked run and every returned packet must be an unaltered packet of the stream in order; non-trivial = every case; distinct by stream bytes")
	defer rec.Flush()
	rapid.Check(t, func(t *rapid.T) {
		o := defaultStreamOpts()
		o.smallPSI, o.maxPESLen, o.maxUnits = true, 700, 3
		m := drawStream(t, o)
		// a null packet first: its tail bytes (0xFF) keep the detection window free of spurious sync bytes
		stream := ref.NullPacket(0xff).MustEncode()
		if gen.Chance(t, 30, "syncbytes") {
			// then a packet whose header is full of 0x47 bytes (PID 0x0747 with payload_unit_start, adaptation_field_length
			// 0x47): the packet size is given by the FIRST sync byte after 188 bytes, not by any later one
			body := bytes.Repeat([]byte{0x47}, 184-72)
			body[0], body[1], body[2] = 0x47, 0x00, 0x02 // neither a PES start code nor a known table
			stream = append(stream, (&ref.TSPacket{PID: 0x0747, PUSI: true, HasAF: true, AF: &ref.AF{Stuffing: 0x47 - 1}, HasPayload: true, Payload: body}).MustEncode()...)
			rec.Class("second_packet_full_of_sync_bytes")
		}
		stream = append(stream, m.bytes()...)
		refP, refD, refE := c08Outputs(stream, c08Cfg{explicit: true, reader: rkSeek})
		if len(refE) > 0 {
			t.Fatalf("reference configuration reports errors: %v\n%s", refE, m.describe())
		}
		nconf := 0
		eofs := rapid.SliceOfN(rapid.Bool(), 32, 32).Draw(t, "eofwithdata")
		bufSizes := rapid.SliceOfN(rapid.SampledFrom([]int{16, 64, 187, 188, 192, 193, 500, 4096}), 32, 32).Draw(t, "bufiosizes")
		try := func(c c08Cfg, extra func(int) byte) {
			c.eofData = eofs[nconf%32]
			c.bufSize = bufSizes[nconf%32]
			data := frame(stream, c.k, extra)
			gp, gd, ge := c08Outputs(data, c)
			nconf++
			rec.Class(rkNames[c.reader])
			if c.reader == rkPlain && !c.explicit {
				// documented: the detection window is consumed. chunked == unchunked, packets are a suffix of the stream's
				up, ud, ue := c08Outputs(data, c08Cfg{k: c.k, reader: rkPlain})
				if !equalStrings(gp, up) || !equalStrings(gd, ud) || len(ge) != len(ue) {
					t.Fatalf("%s: output differs from the same configuration with unlimited reads (%d/%d packets, %d/%d data, errors %v / %v)\nstream: %s", c, len(gp), len(up), len(gd), len(ud), ge, ue, m.describe())
				}
				// the 193-byte detection window spans two packets: those may be lost, nothing else, and the reader must
				// stay in sync afterwards (no error on a well-formed stream)
				for _, e := range ge {
					// data-level errors are expected when the lost packets leave a unit fragment behind
					if len(e) > 11 && e[:11] == "NextPacket:" {
						t.Fatalf("%s: packet-level error on a well-formed stream: %v\nstream: %s", c, e, m.describe())
					}
				}
				if len(gp) > len(refP) || len(gp) < len(refP)-2 || !equalStrings(gp, refP[len(refP)-len(gp):]) {
					t.Fatalf("%s: the packets returned are not the stream's packets minus the (at most two) packets of the detection window (%d returned, stream has %d)\nstream: %s", c, len(gp), len(refP), m.describe())
				}
				return
			}
			if len(ge) > 0 {
				t.Fatalf("%s: errors %v\nstream: %s", c, ge, m.describe())
			}
			if !equalStrings(gp, refP) {
				t.Fatalf("%s: NextPacket sequence differs from the reference configuration (%d packets, %d expected)%s\nstream: %s", c, len(gp), len(refP), firstDiff(gp, refP), m.describe())
			}
			if !equalStrings(gd, refD) {
				t.Fatalf("%s: NextData sequence differs from the reference configuration (%d items, %d expected)%s\nstream: %s", c, len(gd), len(refD), firstDiff(gd, refD), m.describe())
			}
		}
		extraRand := gen.Bytes(t, 64*(len(stream)/188+1), "extra")
		extra := func(i int) byte {
			b := extraRand[i%len(extraRand)]
			if b == 0x47 {
				return 0x48 // extra bytes are not sync bytes (the detection heuristic is bounded by two sync bytes)
			}
			return b
		}
		drawSched := func() (int, []int) {
			switch gen.Uniform(t, 4, "schedk") {
			case 0:
				return 0, nil
			case 1:
				return rapid.IntRange(1, 400).Draw(t, "chunk"), nil
			case 2:
				return 1, nil
			default:
				n := rapid.IntRange(1, 12).Draw(t, "nsched")
				var s []int
				for i := 0; i < n; i++ {
					s = append(s, rapid.IntRange(1, 400).Draw(t, "sched"))
				}
				return rapid.IntRange(0, 400).Draw(t, "chunkafter"), s
			}
		}
		for _, reader := range []int{rkPlain, rkSeek, rkBufio} {
			// explicit 188
			ch, sc := drawSched()
			try(c08Cfg{explicit: true, reader: reader, chunk: ch, sched: sc}, extra)
			// explicit 188+k
			for _, k := range []int{4, 16, rapid.IntRange(1, 64).Draw(t, "k")} {
				ch, sc = drawSched()
				try(c08Cfg{k: k, explicit: true, reader: reader, chunk: ch, sched: sc}, extra)
			}
			// auto-detection, 188..192
			for k := 0; k <= 4; k++ {
				if k != 0 && k != 4 && !gen.Chance(t, 50, "autok") {
					continue
				}
				ch, sc = drawSched()
				try(c08Cfg{k: k, reader: reader, chunk: ch, sched: sc}, extra)
			}
		}
		rec.ClassN("configurations", int64(nconf))
		h := obs.NewHasher()
		h.Bytes(stream)
		rec.Case(h.Sum(), true, func() interface{} {
			return map[string]interface{}{"stream": m.describe(), "configurations": nconf, "packets": len(refP), "data": len(refD)}
		})
	})
}

// TestC08Boundaries puts a read boundary at every offset of the first 400 bytes.
func TestC08Boundaries(t *testing.T) {
	rec := obs.NewRecorder("C08", "boundaries", "rapid: streams x {188 explicit, 192 explicit, 204 explicit, 188 auto, 192 auto} x {plain, seekable, bufio}: the first Read returns exactly n bytes for EVERY n in 1..400 (then unlimited reads): outputs must equal the unfragmented run of the same configuration and (except plain+auto) the reference configuration; non-trivial = every case; distinct by stream bytes")
	defer rec.Flush()
	rapid.Check(t, func(t *rapid.T) {
		o := defaultStreamOpts()
		o.smallPSI, o.maxPESLen, o.maxUnits, o.maxPESPIDs, o.maxPMTPIDs, o.siPIDs = true, 400, 2, 2, 1, false
		m := drawStream(t, o)
		stream := append(ref.NullPacket(0xff).MustEncode(), m.bytes()...)
		if len(stream) > 188*16 {
			stream = stream[:188*16]
		}
		refP, refD, _ := c08Outputs(stream, c08Cfg{explicit: true, reader: rkSeek})
		n := 0
		for _, base := range []c08Cfg{{explicit: true}, {k: 4, explicit: true}, {k: 16, explicit: true}, {}, {k: 4}} {
			for _, reader := range []int{rkPlain, rkSeek, rkBufio} {
				c := base
				c.reader = reader
				data := frame(stream, c.k, func(i int) byte { return byte(i%200+1) | 0x80 })
				up, ud, ue := c08Outputs(data, c)
				if !(reader == rkPlain && !c.explicit) {
					if len(ue) > 0 || !equalStrings(up, refP) || !equalStrings(ud, refD) {
						t.Fatalf("%s: differs from the reference configuration (errors %v)\nstream: %s", c, ue, m.describe())
					}
				}
				for first := 1; first <= 400; first++ {
					cc := c
					cc.sched = []int{first}
					gp, gd, ge := c08Outputs(data, cc)
					if !equalStrings(gp, up) || !equalStrings(gd, ud) || len(ge) != len(ue) {
						t.Fatalf("%s: a first read of %d bytes changes the output (%d/%d packets, %d/%d data, errors %v)\nstream: %s", c, first, len(gp), len(up), len(gd), len(ud), ge, m.describe())
					}
					n++
				}
			}
		}
		rec.ClassN("boundary_positions_x_configurations", int64(n))
		h := obs.NewHasher()
		h.Bytes(stream)
		rec.Case(h.Sum(), true, func() interface{} {
			return map[string]interface{}{"stream": m.describe(), "runs": n}
		})
	})
}

func c08Reader(data []byte, c c08Cfg) (io.Reader, []func(*astits.Demuxer)) {
	fr := &faultReader{data: data, failAt: -1, chunk: c.chunk, sched: c.sched, eofData: c.eofData}
	var r io.Reader = fr
	switch c.reader {
	case rkSeek:
		r = bytes.NewReader(data)
	case rkBufio:
		r = bufio.NewReaderSize(fr, c.bufio())
	}
	var opts []func(*astits.Demuxer)
	if c.explicit {
		opts = append(opts, astits.DemuxerOptPacketSize(188+c.k))
	}
	return r, opts
}

// c08Outcomes renders what the NextPacket (api 0) or NextData (api 1) loop returns on data: packets/items in canonical
// form, "E" for an error other than ErrNoMorePackets, "END" for ErrNoMorePackets (the loop stops there).
func c08Outcomes(data []byte, c c08Cfg, api int) []string {
	r, opts := c08Reader(data, c)
	d := astits.NewDemuxer(context.Background(), r, opts...)
	var out []string
	for i := 0; i < len(data)/188+16; i++ {
		var x interface{}
		var err error
		if api == 0 {
			x, err = d.NextPacket()
		} else {
			x, err = d.NextData()
		}
		if err == astits.ErrNoMorePackets {
			return append(out, "END")
		}
		if err != nil {
			out = append(out, "E")
			continue
		}
		out = append(out, obs.Canon(x))
	}
	return append(out, "NO-END")
}

// TestC08Tails: inputs that are not a whole number of packets - nothing at all, less than one packet, whole packets
// followed by the first bytes of another one.
func TestC08Tails(t *testing.T) {
	rec := obs.NewRecorder("C08", "tails", "deterministic sweep: a fixed well-formed stream cut after N = 0..3 whole records of 188 and 192 bytes plus EVERY tail length 0..record-1 (the first bytes of the next record), read through {plain, seekable, bufio, bufio with a buffer smaller than a packet} x {explicit size, auto-detection} x {NextPacket, NextData}; relations: with an explicit size every reader kind gives the outcome sequence (packets/items, errors, ErrNoMorePackets) of the seekable reader; with auto-detection the seekable and the bufio reader give the sequence of the explicit size (when the input holds a single sync byte within the 193-byte window the size cannot be detected: both must then agree with each other), the plain reader (whose detection window is consumed, as documented) a suffix of it that ends the same way; and inputs of 186..196 bytes give the same outcomes whichever record size was detected just before in the process; distinct by construction")
	defer rec.Flush()
	pts := uint64(77)
	var cc0, cc1, cc2 uint8
	var pk []*ref.TSPacket
	pk = append(pk, ref.NullPacket(0xff))
	pat := (&ref.Section{TableID: 0, CurrentNext: true, PAT: &astits.PATData{TransportStreamID: 1, Programs: []*astits.PATProgram{{ProgramNumber: 1, ProgramMapID: 0x1000}}}}).Encode()
	pk = append(pk, ref.PacketizeUnit(0, ref.PSIUnit(0, 0, pat), &cc0, ref.PktOpts{PadFF: true})...)
	pk = append(pk, ref.PacketizeUnit(0x100, (&ref.PES{StreamID: 0xe0, Length: -1, Opt: &ref.PESOpt{PTS: &pts}, Payload: bytes.Repeat([]byte{0xa5}, 100)}).Encode(), &cc1, ref.PktOpts{})...)
	pk = append(pk, ref.PacketizeUnit(0x101, (&ref.PES{StreamID: 0xc0, Length: -1, Opt: &ref.PESOpt{PTS: &pts}, Payload: bytes.Repeat([]byte{0x5a}, 60)}).Encode(), &cc2, ref.PktOpts{})...)
	stream := ref.EncodeAll(pk)
	total := int64(0)
	for _, k := range []int{0, 4} {
		rs := 188 + k
		framed := frame(stream, k, func(i int) byte { return byte(0x80 | i%100) })
		for n := 0; n <= 3; n++ {
			for tail := 0; tail < rs; tail++ {
				data := append([]byte{}, framed[:n*rs+tail]...)
				for api := 0; api < 2; api++ {
					want := c08Outcomes(data, c08Cfg{k: k, explicit: true, reader: rkSeek}, api)
					var autoSeek []string
					for ri, reader := range []int{rkSeek, rkBufio, rkBufio, rkPlain} {
						for _, explicit := range []bool{true, false} {
							c := c08Cfg{k: k, explicit: explicit, reader: reader}
							if ri == 2 {
								c.bufSize = 16 + (n*rs+tail)%180 // a bufio.Reader whose buffer is smaller than a packet
							}
							got := c08Outcomes(data, c, api)
							total++
							ok := equalStrings(got, want)
							if reader == rkSeek && !explicit {
								autoSeek = got
							}
							switch {
							case explicit:
							case reader == rkPlain:
								// documented: the detection window (two packets) is consumed; a window that cannot be completed is an error
								var g []string
								for _, x := range got {
									if x != "E" {
										g = append(g, x)
									}
								}
								ok = len(g) > 0 && len(g) <= len(want) && equalStrings(g, want[len(want)-len(g):])
							case len(data) >= 188 && len(data) <= rs:
								// a single sync byte in the window: the size cannot be detected; the reader kinds must still agree
								ok = equalStrings(got, autoSeek)
							}
							if !ok {
								t.Fatalf("%d records of %d bytes + %d bytes, %s, api %d: outcomes %v, reference (explicit size, seekable) %v", n, rs, tail, c, api, shortOutcomes(got), shortOutcomes(want))
							}
						}
					}
				}
			}
		}
	}
	// what a short input gives must not depend on which stream this process detected before (a detection window that is
	// reused without being cleared would remember the other stream's sync bytes)
	for l := 186; l <= 196; l++ {
		for _, reader := range []int{rkSeek, rkBufio, rkPlain} {
			for api := 0; api < 2; api++ {
				var first []string
				for hi, k := range []int{0, 4, 1, 0} {
					history := frame(stream, k, func(i int) byte { return byte(0x80 | i%100) })
					c08Outcomes(history, c08Cfg{k: k, reader: rkSeek}, 0)
					got := c08Outcomes(stream[:l], c08Cfg{reader: reader}, api)
					total++
					if hi == 0 {
						first = got
					} else if !equalStrings(got, first) {
						t.Fatalf("input of %d bytes, auto-detection, %s reader, api %d: outcomes %v after a stream of %d-byte records was demuxed, %v after one of 188-byte records", l, rkNames[reader], api, shortOutcomes(got), 188+k, shortOutcomes(first))
					}
				}
			}
		}
	}
	rec.Enumerated(total)
	rec.SetExhaustive(true)
	rec.Sample(map[string]interface{}{"record_sizes": []int{188, 192}, "whole_records": "0..3", "tail_lengths": "0..record-1", "runs": total})
}

func shortOutcomes(o []string) []string {
	var s []string
	for _, x := range o {
		if len(x) > 24 {
			x = x[:24] + "..."
		}
		s = append(s, x)
	}
	return s
}
