package checks

import (
	"bytes"
	"context"
	"fmt"
	"io"
	"strings"

	astits "github.com/asticode/go-astits"
	"pgregory.net/rapid"

	"verifharness/conv"
	"verifharness/gen"
	"verifharness/obs"
	"verifharness/ref"
)

// Shared machinery for the properties stated over Muxer call histories (C01, C04, C05, C09 mux side, C17, C18 writer
// side): symbolic operations drawn by rapid, an executor that applies them to a real Muxer while keeping a reference
// configuration, and a trace that the per-property analysers inspect.

const (
	opAdd = iota
	opRemove
	opSetPCR
	opTables
	opData
	opPacket
	opChurn // n times: add a stream with an automatic PID and remove it again (nothing is written)
)

var opNames = []string{"Add", "Remove", "SetPCRPID", "WriteTables", "WriteData", "WritePacket", "Churn"}

const pmtPID = 0x1000

// muxProfile selects the operation mix.
type muxProfile struct {
	invalid     bool // invalid arguments: unknown PID, duplicate Add, invalid PCR PID
	lowPIDs     bool // explicit PIDs may lie in 0x01..0x1f (only where the output is not demuxed: the Demuxer reads PSI/SI there)
	writePacket bool // WritePacket with arbitrary (also oversize) packets
	bigAF       bool // adaptation fields that leave no room for the PES header / exceed a packet
	bigPMT      bool // descriptors that can push the PMT over one packet
	afDisc      bool // allow discontinuity_indicator in adaptation fields
	maxOps      int
	minOps      int
	bigPayload  bool // occasionally payloads > 65535 bytes
	manyData    bool // bias to WriteData (counter wrap, periods)
	period      int  // 0 = draw 1..50 (and sometimes leave the default of 40)
	noReAdd     bool // never add a PID again after it was removed (its continuity counter would restart, see C01)
}

type muxOp struct {
	kind int
	// Add
	auto  bool
	pid   uint16
	stype astits.StreamType
	descs []*astits.Descriptor
	// target selection for Remove / SetPCR / Data
	sel     int
	bad     bool
	badPID  uint16
	badGone bool // bad: prefer a PID that was added and removed earlier in the history (when there is one)
	// Data
	pes      *ref.PES
	af       *ref.AF
	strayOpt bool // hand an optional header struct to the Muxer although the stream id (0xBE/0xBF) has none
	churn    int  // opChurn: number of add/remove cycles
	staleLen bool // the adaptation field struct carries a stale value in its derived Length field and values in the fields whose flags are off (as one received from the Demuxer and edited would)
	reuseMD  bool // hand over the MuxerData struct of an earlier WriteData on the same PID (refilled), as a caller that keeps one per stream would
	reuseAF  bool // hand over the adaptation field struct (same pointer) of the previous WriteData that had one: same content after a success, new content after a rejection
	// Packet
	pkt *astits.Packet
}

var streamTypes = []astits.StreamType{astits.StreamTypeMPEG2Video, astits.StreamTypeH264Video, astits.StreamTypeH265Video, astits.StreamTypeAACAudio,
	astits.StreamTypeMPEG1Audio, astits.StreamTypeAC3Audio, astits.StreamTypePrivateData, astits.StreamTypeMetadata, astits.StreamTypeDIRACVideo, astits.StreamTypeSCTE35}

var explicitPIDPool = []uint16{0x20, 0x21, 0x100, 0x101, 0x102, 0x0fff, 0x1001, 0x1ffe, 0x1abc, 0x1fff}

func drawStreamType(t *rapid.T) astits.StreamType {
	if gen.Chance(t, 80, "stk") {
		return streamTypes[gen.Uniform(t, len(streamTypes), "st")]
	}
	return astits.StreamType(rapid.IntRange(0, 255).Draw(t, "strand"))
}

// drawESDescriptors draws the ES descriptors of an Add. budget bounds their encoded size.
func drawESDescriptors(t *rapid.T, budget int) []*astits.Descriptor {
	if !gen.Chance(t, 45, "hasdesc") {
		return nil
	}
	ds := gen.Descriptors(t, 3, budget, "esd")
	for _, d := range ds {
		// the redundant Length field may hold anything
		switch gen.Uniform(t, 3, "dlen") {
		case 1:
			d.Length = 0
		case 2:
			d.Length = uint8(rapid.IntRange(0, 255).Draw(t, "dlenv"))
		}
	}
	return ds
}

// drawMuxPESHeader draws the header part of a PES the muxer can write.
func drawMuxPESHeader(t *rapid.T) *ref.PES {
	p := &ref.PES{Length: -1}
	switch {
	case gen.Chance(t, 25, "sid0"):
		p.StreamID = 0 // derive from the stream type
		p.Opt = gen.PESOpt(t, gen.PESOptOpts{Writable: true, MaxSize: 60}, "opt")
	case gen.Chance(t, 6, "sidnohdr"):
		p.StreamID = rapid.SampledFrom([]uint8{0xbe, 0xbf}).Draw(t, "sidnh")
	default:
		p.StreamID = gen.StreamIDWithHeader(t, "sid")
		p.Opt = gen.PESOpt(t, gen.PESOptOpts{Writable: true, MaxSize: 60}, "opt")
	}
	return p
}

// drawMuxPayload draws the payload of p given the size of the adaptation field that precedes it.
func drawMuxPayload(t *rapid.T, prof muxProfile, p *ref.PES, afSize int) {
	hs := p.HeaderSize()
	var n int
	switch gen.Uniform(t, 8, "plk") {
	case 0:
		n = 1
	case 1, 2, 3:
		// around every k*184 boundary given header and adaptation field sizes
		k := rapid.IntRange(1, 5).Draw(t, "k")
		n = k*184 - hs - afSize + rapid.IntRange(-2, 2).Draw(t, "delta")
	case 4:
		if prof.bigPayload && gen.Chance(t, 30, "huge") {
			n = rapid.IntRange(65530, 70000).Draw(t, "hugelen")
		} else {
			n = rapid.IntRange(1, 3000).Draw(t, "len")
		}
	default:
		n = rapid.IntRange(1, 600).Draw(t, "len")
	}
	if n < 1 {
		n = 1
	}
	if n > 4000 {
		// long payloads: cheap to draw
		b := make([]byte, n)
		seed := rapid.Byte().Draw(t, "fillseed")
		for i := range b {
			b[i] = seed + byte(i*31>>3)
		}
		p.Payload = b
	} else {
		p.Payload = gen.Bytes(t, n, "payload")
	}
}

func drawMuxOp(t *rapid.T, prof muxProfile) muxOp {
	var kinds []int
	if prof.manyData {
		kinds = []int{opAdd, opRemove, opSetPCR, opTables, opData, opData, opData, opData, opData, opData}
	} else {
		kinds = []int{opAdd, opAdd, opRemove, opSetPCR, opTables, opData, opData, opData}
	}
	if prof.writePacket {
		kinds = append(kinds, opPacket)
	}
	op := muxOp{kind: kinds[gen.Uniform(t, len(kinds), "op")]}
	op.sel = rapid.IntRange(0, 7).Draw(t, "sel")
	if prof.invalid && gen.Chance(t, 12, "bad") {
		op.bad = true
		op.badPID = uint16(rapid.SampledFrom([]int{0x00, 0x11, 0x30, 0x1000, 0x1fff, 0x1234}).Draw(t, "badpid"))
		op.badGone = gen.Chance(t, 50, "badgone")
	}
	switch op.kind {
	case opAdd:
		op.auto = gen.Chance(t, 40, "auto")
		if !op.auto {
			if prof.lowPIDs && gen.Chance(t, 20, "lowpid") {
				// explicit PIDs below the range of the automatic ones, inside the PIDs reserved for PSI/SI
				op.pid = []uint16{0x01, 0x10, 0x11, 0x1f}[gen.Uniform(t, 4, "lowpidv")]
			} else if gen.Chance(t, 75, "pool") {
				op.pid = explicitPIDPool[gen.Uniform(t, len(explicitPIDPool), "pidpool")]
			} else {
				op.pid = uint16(rapid.IntRange(0x20, 0x1ffe).Draw(t, "pid"))
				if op.pid == pmtPID {
					op.pid++
				}
			}
		}
		op.stype = drawStreamType(t)
		budget := 40
		if prof.bigPMT && gen.Chance(t, 25, "bigdesc") {
			budget = 200
		}
		op.descs = drawESDescriptors(t, budget)
	case opData:
		op.pes = drawMuxPESHeader(t)
		hs := op.pes.HeaderSize()
		afSize := 0
		if gen.Chance(t, 45, "hasaf") {
			budget := 100
			if prof.bigAF && gen.Chance(t, 25, "bigaf") {
				budget = 184
			}
			if budget > 184-hs {
				if !prof.bigAF {
					budget = 184 - hs
				}
			}
			op.af = gen.AF(t, budget, gen.AFOpts{NoDisc: !prof.afDisc}, "af")
			if gen.Chance(t, 20, "affill") {
				// private data sized so that adaptation field + PES header fill the first packet exactly, or miss by 1 or 2
				want := 184 - hs - rapid.IntRange(0, 2).Draw(t, "affillgap")
				if prof.bigAF && gen.Chance(t, 30, "affillover") {
					want = 184 - hs + rapid.IntRange(1, 2).Draw(t, "affillover_n")
				}
				base := op.af.Size()
				if op.af.HasPrivate {
					base -= len(op.af.Private)
				} else {
					base++
				}
				if n := want - base; n >= 0 && n <= 255 {
					op.af.HasPrivate = true
					op.af.Private = gen.Bytes(t, n, "affillpd")
				}
			}
			if prof.bigAF && gen.Chance(t, 12, "hugeaf") {
				// private data that cannot fit any packet
				op.af.HasPrivate = true
				op.af.Private = gen.Bytes(t, rapid.IntRange(170, 255).Draw(t, "hugepd"), "hugepdb")
			}
			afSize = op.af.Size()
		}
		drawMuxPayload(t, prof, op.pes, afSize)
		op.strayOpt = gen.Bool(t, "strayopt")
		op.reuseAF = gen.Chance(t, 30, "reuseaf")
		op.reuseMD = gen.Chance(t, 40, "reusemd")
		op.staleLen = gen.Chance(t, 30, "stalelen")
	case opPacket:
		m := gen.TSPacket(t, "wp")
		m.PID = 0x1f00 + uint16(rapid.IntRange(0, 15).Draw(t, "wppid"))
		op.pkt = conv.PacketStruct(m, false)
		switch gen.Uniform(t, 5, "wpmut") {
		case 0:
			// oversize payload: far too big, or exceeding the room left by the adaptation field by 1..2 bytes only
			op.pkt.Header.HasPayload = true
			n := rapid.IntRange(185, 300).Draw(t, "wpbig")
			if gen.Bool(t, "wpedge") {
				room := 184
				if m.HasAF {
					room -= m.AF.Size()
				}
				n = room + rapid.IntRange(1, 2).Draw(t, "wpover")
			}
			op.pkt.Payload = gen.Bytes(t, n, "wpbigb")
		case 1:
			// oversize private data
			if op.pkt.AdaptationField != nil && !op.pkt.AdaptationField.IsOneByteStuffing {
				af := op.pkt.AdaptationField
				af.HasTransportPrivateData = true
				af.TransportPrivateData = gen.Bytes(t, rapid.IntRange(150, 255).Draw(t, "wppd"), "wppdb")
				af.TransportPrivateDataLength = len(af.TransportPrivateData)
			}
		case 2:
			// short payload: padded by the writer
			if op.pkt.Header.HasPayload && len(op.pkt.Payload) > 1 {
				op.pkt.Payload = op.pkt.Payload[:rapid.IntRange(0, len(op.pkt.Payload)-1).Draw(t, "wpshort")]
			}
		case 3:
			// a reused struct turned into a packet without payload: the bytes left in Payload are not part of the packet
			if !op.pkt.Header.HasPayload {
				op.pkt.Payload = gen.Bytes(t, rapid.IntRange(1, 60).Draw(t, "wpstray"), "wpstrayb")
				if af := op.pkt.AdaptationField; af != nil && gen.Bool(t, "wpstraynostuff") {
					af.StuffingLength = 0 // the caller leaves the filling of the packet to the writer
				}
			}
		}
	}
	return op
}

func genMuxHistory(t *rapid.T, prof muxProfile) (period int, setPeriod bool, ops []muxOp) {
	period = prof.period
	setPeriod = true
	if period == 0 {
		switch gen.Uniform(t, 6, "periodk") {
		case 0:
			period, setPeriod = 40, false // library default
		case 1:
			period = 1
		case 2:
			period = rapid.IntRange(2, 4).Draw(t, "period")
		default:
			period = rapid.IntRange(1, 50).Draw(t, "period")
		}
	}
	min := prof.minOps
	if min == 0 {
		min = 1
	}
	ops = rapid.SliceOfN(rapid.Custom(func(t *rapid.T) muxOp { return drawMuxOp(t, prof) }), min, prof.maxOps).Draw(t, "ops")
	if gen.Chance(t, 75, "setup") {
		// most histories start from a usable configuration (one stream that is the PCR PID), otherwise the bulk of the
		// WriteData calls would only exercise the error paths
		add := muxOp{kind: opAdd, auto: gen.Bool(t, "setup_auto"), pid: explicitPIDPool[gen.Uniform(t, len(explicitPIDPool), "setup_pid")], stype: drawStreamType(t)}
		first := []muxOp{add, {kind: opSetPCR, sel: 0}}
		if prof.bigAF && gen.Chance(t, 15, "setup_bigaf_first") {
			// the very first unit of the stream comes with an adaptation field that leaves no room for the PES header
			pts := uint64(rapid.IntRange(0, 1<<20).Draw(t, "setup_pts"))
			first = append(first, muxOp{kind: opData, sel: 0,
				pes: &ref.PES{StreamID: 0xe0, Length: -1, Opt: &ref.PESOpt{PTS: &pts}, Payload: gen.Bytes(t, rapid.IntRange(1, 300).Draw(t, "setup_pl"), "setup_plb")},
				af:  &ref.AF{HasPrivate: true, Private: gen.Bytes(t, rapid.IntRange(168, 181).Draw(t, "setup_pd"), "setup_pdb")}})
		}
		ops = append(first, ops...)
		if gen.Chance(t, 5, "setup_churn") {
			// a long-lived Muxer: so many automatic PIDs were handed out (and given back) that the next ones are around
			// the PMT's own PID 0x1000
			ops[0].auto = true
			ops = append([]muxOp{{kind: opChurn, churn: pmtPID - 0x100 - gen.Uniform(t, 3, "setup_churn_short"), stype: astits.StreamTypeMPEG2Audio}}, ops...)
		}
	}
	return
}

// ---------------------------------------------------------------------------------------------------------------------

type cfgStream struct {
	pid   uint16
	stype astits.StreamType
	descs []*astits.Descriptor
	auto  bool
	gen   int // generation: incremented whenever this PID is (re-)added
}

type muxCfg struct {
	streams []cfgStream
	pcr     uint16
}

func (c *muxCfg) clone() *muxCfg {
	return &muxCfg{streams: append([]cfgStream{}, c.streams...), pcr: c.pcr}
}

func (c *muxCfg) find(pid uint16) int {
	for i, s := range c.streams {
		if s.pid == pid {
			return i
		}
	}
	return -1
}

func (c *muxCfg) pcrValid() bool { return c.find(c.pcr) >= 0 }

// pmtFits reports whether the PMT of this configuration fits in one packet.
func (c *muxCfg) pmtFits() bool {
	n := 1 + 3 + 5 + 4 + 4
	for _, s := range c.streams {
		n += 5 + len(ref.EncodeDescriptors(s.descs))
	}
	return n <= 184
}

type stepRec struct {
	idx       int
	kind      int
	desc      string
	n         int
	err       error
	out       []byte
	outOff    int // offset of out in the whole output
	pid       uint16
	cfgBefore *muxCfg
	cfgAfter  *muxCfg
	changed   bool // the call changed the table content (successful Add/Remove, any SetPCRPID)
	// WriteData
	pes        *ref.PES
	af         *ref.AF
	streamGen  int
	stype      astits.StreamType
	knownPID   bool // the target PID exists in the configuration
	afFits     bool // adaptation field and PES header share the first packet
	afTooBig   bool // the adaptation field alone exceeds a packet
	forceRAP   bool // random access indicator on the PCR PID
	payloadLen int
	// fault injection
	writeFailed bool // a Write of the underlying writer failed during this call
}

type muxTrace struct {
	reAddAvoided int // Adds whose PID was changed because it had been used and removed before (noReAdd)
	period       int
	steps        []*stepRec
	out          []byte
	writes       int // successful Write calls seen by the underlying writer
}

func (tr *muxTrace) render() string {
	var sb strings.Builder
	fmt.Fprintf(&sb, "retransmit period %d\n", tr.period)
	for _, s := range tr.steps {
		e := "ok"
		if s.err != nil {
			e = "ERR " + s.err.Error()
		}
		fmt.Fprintf(&sb, "  %2d %s -> n=%d emitted=%d %s\n", s.idx, s.desc, s.n, len(s.out), e)
	}
	return sb.String()
}

// writerSpy lets tests substitute the writer (fault injection) while recording accepted bytes.
type writerSpy struct {
	buf    bytes.Buffer
	calls  int
	failed bool                                  // a Write returned an error since the flag was last cleared
	fault  func(call int, p []byte) (int, error) // nil = accept
}

// outputLimit is far above what any generated history can legitimately produce (60 units of at most 70 kB): a Muxer
// that passes it is writing packets in an endless loop.
const outputLimit = 64 << 20

func (w *writerSpy) Write(p []byte) (int, error) {
	w.calls++
	if w.buf.Len() > outputLimit {
		panic(fmt.Sprintf("the Muxer has written more than %d bytes for one call history: runaway packet loop", outputLimit))
	}
	if w.fault != nil {
		n, err := w.fault(w.calls, p)
		if n > 0 {
			w.buf.Write(p[:n])
		}
		if err != nil || n < len(p) {
			if err == nil {
				err = io.ErrShortWrite
			}
			w.failed = true
			return n, err
		}
		return n, nil
	}
	return w.buf.Write(p)
}

// sniffAutoPID replays the configuration changing calls on a scratch Muxer and reads the PID the library assigned
// to the stream at position idx from the PMT it writes; ok=false when the scratch PMT cannot be produced.
func sniffAutoPID(replay []func(*astits.Muxer), idx int) (uint16, bool) {
	var buf cappedBuffer
	m := astits.NewMuxer(context.Background(), &buf)
	for _, f := range replay {
		f(m)
	}
	// a PCR PID that certainly exists: a scratch stream appended after all others
	const scratch = 0x1ff0
	if err := m.AddElementaryStream(astits.PMTElementaryStream{ElementaryPID: scratch, StreamType: astits.StreamTypeMetadata}); err != nil {
		return 0, false
	}
	m.SetPCRPID(scratch)
	if _, err := m.WriteTables(); err != nil {
		return 0, false
	}
	raw, okp := ref.SplitPackets(buf.Bytes())
	if !okp {
		return 0, false
	}
	for _, r := range raw {
		p, err := ref.DecodeTS(r)
		if err != nil || p.PID != pmtPID {
			continue
		}
		sec, err := ref.TablePacketSection(p.Payload)
		if err != nil {
			return 0, false
		}
		_, _, es, ok := ref.DecodePMT(sec)
		if !ok || idx >= len(es) {
			return 0, false
		}
		return es[idx].PID, true
	}
	return 0, false
}

// runMuxHistory applies the operations to a Muxer writing to w and returns the trace.
func runMuxHistory(period int, setPeriod bool, ops []muxOp, w *writerSpy, noReAddOpt ...bool) (tr *muxTrace) {
	guarded("the Muxer call history", func() { tr = runMuxHistoryUnguarded(period, setPeriod, ops, w, noReAddOpt...) })
	return
}

func runMuxHistoryUnguarded(period int, setPeriod bool, ops []muxOp, w *writerSpy, noReAddOpt ...bool) *muxTrace {
	noReAdd := len(noReAddOpt) > 0 && noReAddOpt[0]
	var opts []func(*astits.Muxer)
	if setPeriod {
		opts = append(opts, astits.MuxerOptTablesRetransmitPeriod(period))
	}
	m := astits.NewMuxer(context.Background(), w, opts...)
	tr := &muxTrace{period: period}
	cfg := &muxCfg{}
	gens := map[uint16]int{}
	var replay []func(*astits.Muxer)
	predAuto := uint16(0x100)
	keptMD := map[uint16]*astits.MuxerData{}
	var lastAF *astits.PacketAdaptationField
	lastAFFailed := false
	var gone []uint16 // PIDs removed so far (a later Add may have brought one back: target() then reports it as known)
	var lastAFModel *ref.AF
	for i := range ops {
		op := &ops[i]
		st := &stepRec{idx: i, kind: op.kind, cfgBefore: cfg.clone(), outOff: w.buf.Len()}
		before := w.buf.Len()
		target := func() (uint16, bool) {
			if op.bad || len(cfg.streams) == 0 {
				pid := op.badPID
				if !op.bad {
					pid = 0x0abc
				} else if op.badGone && len(gone) > 0 {
					pid = gone[op.sel%len(gone)]
				}
				return pid, cfg.find(pid) >= 0
			}
			return cfg.streams[op.sel%len(cfg.streams)].pid, true
		}
		switch op.kind {
		case opAdd:
			pid := op.pid
			if op.bad && len(cfg.streams) > 0 && !op.auto {
				pid = cfg.streams[op.sel%len(cfg.streams)].pid // duplicate
			}
			if noReAdd && !op.auto && gens[pid] > 0 && cfg.find(pid) < 0 {
				for gens[pid] > 0 || pid == pmtPID || cfg.find(pid) >= 0 {
					pid++
					if pid > 0x1ffe {
						pid = 0x20
					}
				}
				tr.reAddAvoided++
			}
			es := astits.PMTElementaryStream{ElementaryPID: pid, StreamType: op.stype, ElementaryStreamDescriptors: op.descs}
			if op.auto {
				es.ElementaryPID = 0
			}
			st.err = m.AddElementaryStream(es)
			st.desc = fmt.Sprintf("Add(pid=%#x auto=%v type=%#x descs=%d)", es.ElementaryPID, op.auto, uint8(op.stype), len(op.descs))
			if st.err == nil {
				esCopy := astits.PMTElementaryStream{ElementaryPID: es.ElementaryPID, StreamType: op.stype}
				replay = append(replay, func(m *astits.Muxer) { _ = m.AddElementaryStream(esCopy) })
				if op.auto {
					if p, ok := sniffAutoPID(replay, len(cfg.streams)); ok {
						pid = p
					} else {
						for cfg.find(predAuto) >= 0 || predAuto == pmtPID {
							predAuto++
						}
						pid = predAuto
					}
					if pid >= predAuto {
						predAuto = pid + 1
					}
				}
				gens[pid]++
				cfg.streams = append(cfg.streams, cfgStream{pid: pid, stype: op.stype, descs: op.descs, auto: op.auto, gen: gens[pid]})
				st.changed = true
				st.desc += fmt.Sprintf(" => pid %#x", pid)
			}
			st.pid = pid
		case opRemove:
			pid, _ := target()
			st.pid = pid
			st.err = m.RemoveElementaryStream(pid)
			st.desc = fmt.Sprintf("Remove(%#x)", pid)
			if st.err == nil {
				if i := cfg.find(pid); i >= 0 {
					cfg.streams = append(cfg.streams[:i:i], cfg.streams[i+1:]...)
				}
				p := pid
				gone = append(gone, pid)
				replay = append(replay, func(m *astits.Muxer) { _ = m.RemoveElementaryStream(p) })
				st.changed = true
			}
		case opSetPCR:
			pid, _ := target()
			st.pid = pid
			m.SetPCRPID(pid)
			cfg.pcr = pid
			st.changed = true
			st.desc = fmt.Sprintf("SetPCRPID(%#x)", pid)
		case opTables:
			st.n, st.err = m.WriteTables()
			st.desc = "WriteTables()"
		case opData:
			pid, known := target()
			st.pid, st.knownPID = pid, known
			af := op.af
			reuse := op.reuseAF && lastAF != nil
			if reuse && lastAFFailed && af != nil {
				// the previous call with this struct was rejected: the caller puts other content into the same struct (it knows
				// nothing of the bookkeeping the Muxer may have left in StuffingLength) and tries again
				left := lastAF.StuffingLength
				*lastAF = *conv.AFStruct(af, false)
				lastAF.StuffingLength = left
			} else if reuse {
				// a caller that keeps one adaptation field struct and hands it to successive calls
				af = lastAFModel
			}
			st.pes, st.af = op.pes, af
			st.payloadLen = len(op.pes.Payload)
			d := &astits.MuxerData{PID: pid, PES: conv.PESStruct(op.pes, false, op.pes.Payload, 0)}
			if kept := keptMD[pid]; kept != nil && op.reuseMD {
				kept.PES, kept.AdaptationField = d.PES, nil
				d = kept
			} else if op.reuseMD {
				keptMD[pid] = d
			}
			if !hasOptHeaderLib(op.pes.StreamID) {
				d.PES.Header.OptionalHeader = nil
				if op.strayOpt {
					// padding_stream / private_stream_2 have no optional header: a struct supplied anyway must not be written
					d.PES.Header.OptionalHeader = &astits.PESOptionalHeader{MarkerBits: 2, PTSDTSIndicator: 2, PTS: &astits.ClockReference{Base: 0x1fffffffe}}
				}
			}
			if af != nil {
				d.AdaptationField = conv.AFStruct(af, false)
				if op.staleLen && !d.AdaptationField.IsOneByteStuffing {
					d.AdaptationField.Length = 1 + (7*len(op.pes.Payload)+af.Size())%183
					conv.StrayAF(d.AdaptationField)
				}
				if reuse {
					d.AdaptationField = lastAF
				}
				st.forceRAP = af.RAI && pid == cfg.pcr
				st.afTooBig = af.Size() > 184
				// the Muxer reserves room for the optional header struct it was handed, even when the stream id has none
				reserve := op.pes.HeaderSize()
				if !hasOptHeaderLib(op.pes.StreamID) && op.strayOpt {
					reserve += 8
				}
				st.afFits = af.Size()+reserve <= 184
			} else {
				st.afFits = true
			}
			if i := cfg.find(pid); i >= 0 {
				st.streamGen = cfg.streams[i].gen
				st.stype = cfg.streams[i].stype
			}
			st.n, st.err = m.WriteData(d)
			lastAF, lastAFModel, lastAFFailed = nil, nil, false
			if d.AdaptationField != nil && (st.err == nil || known) {
				lastAF, lastAFModel, lastAFFailed = d.AdaptationField, af, st.err != nil
			}
			st.desc = fmt.Sprintf("WriteData(pid=%#x sid=%#x hdr=%d payload=%d af=%s)", pid, op.pes.StreamID, op.pes.HeaderSize(), len(op.pes.Payload), afDesc(af))
		case opChurn:
			done := 0
			for ; done < op.churn; done++ {
				es := astits.PMTElementaryStream{StreamType: op.stype}
				if st.err = m.AddElementaryStream(es); st.err != nil {
					break
				}
				addAuto := func(m *astits.Muxer) { _ = m.AddElementaryStream(es) }
				for cfg.find(predAuto) >= 0 || predAuto == pmtPID {
					predAuto++
				}
				pid := predAuto
				if m.RemoveElementaryStream(pid) != nil {
					// not the PID the model expected: learn it from the PMT of a scratch replay
					p, ok := sniffAutoPID(append(replay[:len(replay):len(replay)], addAuto), len(cfg.streams))
					if !ok {
						st.err = fmt.Errorf("harness: automatic PID of churn cycle %d unknown", done)
						break
					}
					pid = p
					if st.err = m.RemoveElementaryStream(pid); st.err != nil {
						break
					}
				}
				if pid >= predAuto {
					predAuto = pid + 1
				}
				rp := pid
				replay = append(replay, addAuto, func(m *astits.Muxer) { _ = m.RemoveElementaryStream(rp) })
			}
			st.changed = done > 0
			st.desc = fmt.Sprintf("Churn(%d x Add(auto)+Remove) => next automatic PID %#x", done, predAuto)
		case opPacket:
			st.pid = op.pkt.Header.PID
			st.n, st.err = m.WritePacket(op.pkt)
			st.desc = fmt.Sprintf("WritePacket(pid=%#x af=%v payload=%d)", op.pkt.Header.PID, op.pkt.Header.HasAdaptationField, len(op.pkt.Payload))
		}
		st.out = append([]byte{}, w.buf.Bytes()[before:]...)
		st.writeFailed, w.failed = w.failed, false
		st.cfgAfter = cfg.clone()
		tr.steps = append(tr.steps, st)
	}
	tr.out = append([]byte{}, w.buf.Bytes()...)
	tr.writes = w.calls
	return tr
}

func afDesc(a *ref.AF) string {
	if a == nil {
		return "none"
	}
	return fmt.Sprintf("%dB(rai=%v pcr=%v priv=%d)", a.Size(), a.RAI, a.PCR != nil, len(a.Private))
}

// hasOptHeaderLib is the library's documented rule for which stream ids carry an optional PES header.
func hasOptHeaderLib(id uint8) bool { return id != 0xbe && id != 0xbf }

// packetsOf decodes every packet of a byte string with the independent decoder.
func packetsOf(b []byte) ([]*ref.TSPacket, error) {
	raw, ok := ref.SplitPackets(b)
	if !ok {
		return nil, fmt.Errorf("%d bytes is not a whole number of 188-byte packets", len(b))
	}
	var ps []*ref.TSPacket
	for i, r := range raw {
		p, err := ref.DecodeTS(r)
		if err != nil {
			return nil, fmt.Errorf("packet %d (%x...): %v", i, r[:8], err)
		}
		ps = append(ps, p)
	}
	return ps, nil
}

// historySig hashes the shape of a trace for the distinct-case count.
func historySig(tr *muxTrace) uint64 {
	h := obs.NewHasher()
	h.Int(int64(tr.period))
	for _, s := range tr.steps {
		h.String(s.desc)
		h.Int(int64(s.n))
	}
	return h.Sum()
}
