package checks

import (
	"fmt"
	"testing"

	"pgregory.net/rapid"

	"verifharness/obs"
	"verifharness/ref"
)

// C04 — Muxer output is always whole, decodable 188-byte packets; byte counts are exact.
// C05 — Muxed continuity counters advance by one per payload packet on every PID.

func isWritePacketPID(pid uint16) bool { return pid >= 0x1f00 && pid <= 0x1f0f }

// analyzeC04 checks every step of a trace; it returns a description of the first violation or "".
func analyzeC04(tr *muxTrace) string {
	for _, s := range tr.steps {
		if s.n != len(s.out) {
			return fmt.Sprintf("step %d %s: returned n=%d but %d bytes reached the writer (err=%v)", s.idx, s.desc, s.n, len(s.out), s.err)
		}
		if len(s.out)%188 != 0 {
			return fmt.Sprintf("step %d %s: %d bytes reached the writer: a partial packet is left in the output (err=%v)", s.idx, s.desc, len(s.out), s.err)
		}
		if s.kind == opPacket {
			// packets handed to WritePacket are the caller's: their inner consistency (e.g. an adaptation field too short
			// for a packet without payload, which the writer pads with 0xFF as documented) is not the Muxer's to fix
			if s.err == nil && (len(s.out) != 188 || s.out[0] != 0x47 || uint16(s.out[1]&0x1f)<<8|uint16(s.out[2]) != s.pid) {
				return fmt.Sprintf("step %d %s: %d bytes written, first bytes %x", s.idx, s.desc, len(s.out), s.out[:min(4, len(s.out))])
			}
			if s.err != nil && len(s.out) != 0 {
				return fmt.Sprintf("step %d %s rejected (%v) but wrote %d bytes", s.idx, s.desc, s.err, len(s.out))
			}
			continue
		}
		ps, err := packetsOf(s.out)
		if err != nil {
			return fmt.Sprintf("step %d %s: %v", s.idx, s.desc, err)
		}
		switch s.kind {
		case opAdd, opRemove, opSetPCR, opChurn:
			if len(s.out) != 0 {
				return fmt.Sprintf("step %d %s wrote %d bytes", s.idx, s.desc, len(s.out))
			}
		case opTables:
			if s.err == nil && len(ps) != 2 {
				return fmt.Sprintf("step %d %s: %d packets written, want PAT+PMT", s.idx, s.desc, len(ps))
			}
			if s.err != nil && len(ps) != 0 {
				return fmt.Sprintf("step %d %s failed (%v) but wrote %d packets", s.idx, s.desc, s.err, len(ps))
			}
		case opData:
			if !s.knownPID && (len(s.out) != 0 || s.err == nil) {
				return fmt.Sprintf("step %d %s on an unknown PID: err=%v, %d bytes written", s.idx, s.desc, s.err, len(s.out))
			}
			if s.err == nil {
				// unit structure of this call: exactly one unit start, on the first payload packet, carrying the PES
				pusi, total, first := 0, 0, true
				var head []byte
				for _, p := range ps {
					if p.PID != s.pid {
						if p.PID != 0 && p.PID != pmtPID {
							return fmt.Sprintf("step %d %s emitted a packet on PID %#x", s.idx, s.desc, p.PID)
						}
						continue
					}
					if !p.HasPayload {
						if p.PUSI {
							return fmt.Sprintf("step %d %s: payload_unit_start_indicator on a packet without payload", s.idx, s.desc)
						}
						continue
					}
					if p.PUSI {
						pusi++
						if !first {
							return fmt.Sprintf("step %d %s: payload_unit_start_indicator on a packet that is not the first of the unit", s.idx, s.desc)
						}
					} else if first {
						return fmt.Sprintf("step %d %s: first payload packet of the unit lacks payload_unit_start_indicator", s.idx, s.desc)
					}
					first = false
					if len(head) < 9 {
						head = append(head, p.Payload...)
					}
					total += len(p.Payload)
				}
				if pusi != 1 {
					return fmt.Sprintf("step %d %s: %d unit starts in one WriteData", s.idx, s.desc, pusi)
				}
				if len(head) < 6 || head[0] != 0 || head[1] != 0 || head[2] != 1 {
					return fmt.Sprintf("step %d %s: unit does not begin with the PES start code: %x", s.idx, s.desc, head)
				}
				if want := s.pes.HeaderSize() + len(s.pes.Payload); total != want {
					return fmt.Sprintf("step %d %s: unit carries %d bytes, PES packet is %d bytes", s.idx, s.desc, total, want)
				}
				if l := int(head[4])<<8 | int(head[5]); l != 0 && l != total-6 {
					return fmt.Sprintf("step %d %s: PES_packet_length %d but %d bytes follow before the next unit", s.idx, s.desc, l, total-6)
				}
			}
		}
		// table packets wherever they appear
		for i, p := range ps {
			if p.PID == 0 || p.PID == pmtPID {
				if !p.PUSI || !p.HasPayload {
					return fmt.Sprintf("step %d %s: table packet %d without payload_unit_start_indicator/payload", s.idx, s.desc, i)
				}
				if p.Payload[0] != 0 {
					return fmt.Sprintf("step %d %s: table packet %d has pointer_field %d", s.idx, s.desc, i, p.Payload[0])
				}
				sec, err := ref.TablePacketSection(p.Payload)
				if err != nil {
					return fmt.Sprintf("step %d %s: table packet %d on PID %#x: %v", s.idx, s.desc, i, p.PID, err)
				}
				wantID := uint8(0)
				if p.PID == pmtPID {
					wantID = 2
				}
				if sec[0] != wantID {
					return fmt.Sprintf("step %d %s: table_id %#x on PID %#x", s.idx, s.desc, sec[0], p.PID)
				}
			}
		}
	}
	if len(tr.out)%188 != 0 {
		return "the output is not a whole number of packets"
	}
	return ""
}

// analyzeC05 checks continuity per PID; ES PIDs restart when the stream is (re-)added.
func analyzeC05(tr *muxTrace) string {
	last := map[uint16]int{}
	for _, s := range tr.steps {
		if s.kind == opAdd && s.err == nil && s.cfgBefore.find(s.pid) < 0 {
			// a stream added on a PID that is not in use starts a new counter; a stream that lands on a PID still in use
			// (automatic assignment colliding with an explicit one) must not disturb the running stream's counter
			delete(last, s.pid)
		}
		if s.kind == opPacket {
			continue
		}
		// header fields only (PID, payload flag, counter): a packet that is malformed elsewhere - C04's business - still
		// counts here with what its header says
		raw, _ := ref.SplitPackets(s.out)
		for i, r := range raw {
			pid, hasPayload, cc := uint16(r[1]&0x1f)<<8|uint16(r[2]), r[3]&0x10 != 0, int(r[3]&0x0f)
			if isWritePacketPID(pid) || !hasPayload {
				continue
			}
			if prev, ok := last[pid]; ok && cc != (prev+1)%16 {
				return fmt.Sprintf("step %d %s: packet %d on PID %#x has continuity_counter %d after %d", s.idx, s.desc, i, pid, cc, prev)
			}
			last[pid] = cc
		}
	}
	return ""
}

func c04Profile() muxProfile {
	return muxProfile{invalid: true, writePacket: true, bigAF: true, bigPMT: true, afDisc: true, maxOps: 40, bigPayload: true}
}

func muxClasses(rec *obs.Recorder, tr *muxTrace) (rejectedThenOK, nearBoundary, wrap, failedTablesThenOK, afNoRoom bool) {
	perPID := map[uint16]int{}
	rejected, failedTables := false, false
	for _, s := range tr.steps {
		if s.err != nil && (s.kind == opData || s.kind == opTables || s.kind == opPacket) {
			rejected = true
			if s.kind == opTables || (s.kind == opData && s.knownPID && !s.afTooBig) {
				failedTables = true
			}
		}
		if s.err == nil && len(s.out) > 0 {
			if rejected {
				rejectedThenOK = true
			}
			if failedTables && (s.kind == opTables || s.kind == opData) {
				failedTablesThenOK = true
			}
		}
		if s.kind == opData && s.err == nil {
			afs := 0
			if s.af != nil {
				afs = s.af.Size()
			}
			r := (s.pes.HeaderSize() + len(s.pes.Payload) + afs) % 184
			if r <= 2 || r >= 182 {
				nearBoundary = true
			}
			if !s.afFits {
				afNoRoom = true
			}
		}
		for _, p := range mustPackets(s.out) {
			if p.HasPayload {
				perPID[p.PID]++
			}
		}
	}
	for _, n := range perPID {
		if n > 16 {
			wrap = true
		}
	}
	if rejectedThenOK {
		rec.Class("rejected_call_then_successful_write")
	}
	if nearBoundary {
		rec.Class("unit_within_2_bytes_of_packet_boundary")
	}
	if wrap {
		rec.Class("counter_wrap(>16_packets_on_a_pid)")
	}
	if failedTablesThenOK {
		rec.Class("failed_tables_then_successful_ones")
	}
	if afNoRoom {
		rec.Class("af_leaves_no_room_for_pes_header")
	}
	return
}

// mustPackets decodes what it can (packets a caller pushed through WritePacket may not be conformant).
func mustPackets(b []byte) []*ref.TSPacket {
	raw, _ := ref.SplitPackets(b)
	var ps []*ref.TSPacket
	for _, r := range raw {
		if p, err := ref.DecodeTS(r); err == nil {
			ps = append(ps, p)
		}
	}
	return ps
}

func TestC04History(t *testing.T) {
	rec := obs.NewRecorder("C04", "history", "rapid: histories of 1..40 Add/Remove/SetPCRPID/WriteTables/WriteData/WritePacket calls with valid and invalid arguments (unknown PID, duplicate Add, invalid PCR PID, PMT too large, adaptation fields leaving no room or exceeding a packet, oversize WritePacket payload/private data), any retransmit period; after EVERY call: returned n == bytes delivered, delivered bytes are whole packets accepted by the independent ISO 13818-1 decoder, unit structure (one unit start per WriteData on its first payload packet, PES start code, PES_packet_length consistent, pointer_field + CRC-valid section + 0xFF on table PIDs), nothing written by rejected calls; non-trivial = a rejected call followed by a successful write and a unit within 2 bytes of a packet boundary; distinct by history")
	defer rec.Flush()
	rapid.Check(t, func(t *rapid.T) {
		period, setp, ops := genMuxHistory(t, c04Profile())
		tr := runMuxHistory(period, setp, ops, &writerSpy{})
		if v := analyzeC04(tr); v != "" {
			t.Fatalf("%s\nhistory:\n%s", v, tr.render())
		}
		rej, near, _, _, _ := muxClasses(rec, tr)
		rec.Case(historySig(tr), rej && near, func() interface{} { return tr.render() })
	})
}

func TestC05History(t *testing.T) {
	rec := obs.NewRecorder("C05", "history", "rapid: the same histories as C04 biased to WriteData (counter wrap) and to failing WriteTables / adaptation fields that leave no room for the PES header; the writer's bytes are decoded with the independent TS decoder and, per PID (PAT, PMT, each elementary stream while it stays added), consecutive payload-carrying packets must have continuity_counter +1 mod 16; non-trivial = > 16 payload packets on a PID, or a failed table generation followed by a successful one, or an adaptation field without room for the PES header; distinct by history")
	defer rec.Flush()
	rapid.Check(t, func(t *rapid.T) {
		prof := c04Profile()
		prof.manyData = true
		prof.maxOps = 60
		period, setp, ops := genMuxHistory(t, prof)
		tr := runMuxHistory(period, setp, ops, &writerSpy{})
		if v := analyzeC05(tr); v != "" {
			t.Fatalf("%s\nhistory:\n%s", v, tr.render())
		}
		_, _, wrap, ft, afnr := muxClasses(rec, tr)
		rec.Case(historySig(tr), wrap || ft || afnr, func() interface{} { return tr.render() })
	})
}
