package checks

import (
	"bytes"
	"context"
	"fmt"
	"reflect"
	"testing"

	astits "github.com/asticode/go-astits"
	"pgregory.net/rapid"

	"verifharness/gen"
	"verifharness/obs"
	"verifharness/ref"
)

// C09 — tables are delivered only with a valid CRC_32; muxed sections carry a valid one.

// c09Stream carries a PSI unit payload on its PID (after a PAT when it is a PMT) and returns the stream bytes.
type c09Case struct {
	kind     int
	pid      uint16
	prefix   []byte // packets before the unit (PAT for a PMT)
	payload  []byte // pointer_field .. sections .. (optional stuffing)
	secStart int    // offset of the first section in payload
	secEnd   int    // offset after the last section
}

func (c *c09Case) stream(payload []byte) []byte {
	cc := uint8(3)
	pk := ref.PacketizeUnit(c.pid, payload, &cc, ref.PktOpts{PadFF: true})
	return append(append([]byte{}, c.prefix...), ref.EncodeAll(pk)...)
}

// deliveredOn returns the canonical renderings of what is delivered on the case's PID.
func (c *c09Case) deliveredOn(stream []byte) (items []string, errs int) {
	res := demuxAll(stream)
	for _, it := range res.items {
		if it.PID == c.pid {
			// the table alone: which packet a section was found in is not C09's subject (a section of a damaged
			// multi-packet unit may legitimately be found again from a later packet of that unit)
			cp := *it
			cp.FirstPacket = nil
			items = append(items, obs.Canon(&cp))
		}
	}
	return items, len(res.errs)
}

func drawC09Case(t *rapid.T) *c09Case {
	c := &c09Case{kind: gen.Uniform(t, 6, "kind")}
	c.pid = gen.StandardPID(c.kind)
	if c.kind == gen.KindPMT {
		c.pid = uint16(rapid.IntRange(0x20, 0x1ffe).Draw(t, "pmtpid"))
		pat := (&ref.Section{TableID: 0, CurrentNext: true, PAT: &astits.PATData{TransportStreamID: 1, Programs: []*astits.PATProgram{{ProgramNumber: 5, ProgramMapID: c.pid}}}}).Encode()
		var cc uint8
		c.prefix = ref.EncodeAll(ref.PacketizeUnit(0, ref.PSIUnit(0, 0, pat), &cc, ref.PktOpts{PadFF: true}))
	}
	n := 1
	if gen.Chance(t, 30, "two") {
		n = 2
	}
	var secs [][]byte
	for i := 0; i < n; i++ {
		maxBody := rapid.IntRange(0, 120).Draw(t, "maxbody")
		if i < n-1 {
			maxBody = rapid.IntRange(0, 40).Draw(t, "maxbody0")
		}
		s := gen.Section(t, c.kind, gen.SectionOpts{MaxBody: maxBody, MaxItems: 3, MaxDescs: 2}, fmt.Sprintf("s%d", i))
		secs = append(secs, s.Encode())
	}
	ptr := 0
	if gen.Chance(t, 25, "ptr") {
		ptr = rapid.IntRange(1, 8).Draw(t, "pointer")
	}
	// stream precondition (DESIGN 2.2-1): every section of a unit starts in the unit's first packet. MaxBody bounds the
	// loops of a section, not its descriptors, so a leading section can come out longer than a packet: keep the last one only
	head := 1 + ptr
	for _, e := range secs[:len(secs)-1] {
		head += len(e)
	}
	if head >= 184 {
		secs = secs[len(secs)-1:]
	}
	c.payload = ref.PSIUnit(ptr, 0x00, secs...)
	c.secStart = 1 + ptr
	c.secEnd = len(c.payload)
	if gen.Chance(t, 40, "stuff") {
		for i := rapid.IntRange(1, 6).Draw(t, "nstuff"); i > 0; i-- {
			c.payload = append(c.payload, 0xff)
		}
	}
	return c
}

// c09Judge applies the oracle to a corrupted payload. It returns (violation text, escaped).
func c09Judge(c *c09Case, originals map[string]bool, corrupted []byte, what string) (string, bool) {
	got, _ := c.deliveredOn(c.stream(corrupted))
	for _, g := range got {
		if originals[g] {
			continue
		}
		// something other than an unmodified original table was delivered: only acceptable if the reference decoder
		// accepts every CRC-bearing section it finds in the corrupted unit (a genuine CRC collision / a corruption
		// that produced another valid section)
		secs, _ := ref.WalkSections(corrupted)
		allOK := len(secs) > 0
		for _, s := range secs {
			if s.HasCRC && !s.CRCOK {
				allOK = false
			}
		}
		if allOK {
			return "", true
		}
		return fmt.Sprintf("%s: a table that is not one of the original tables was delivered although the reference decoder rejects the CRC_32:\n delivered %s\n corrupted unit %x\n original  unit %x", what, obs.Trunc(g, 700), corrupted, c.payload), false
	}
	return "", false
}

func TestC09Demux(t *testing.T) {
	rec := obs.NewRecorder("C09", "demux_corruption", "rapid: valid sections of the six table types (1-2 per unit, pointer_field 0..8, optional stuffing) on their PIDs (PMT after a PAT); guard: the clean stream delivers every table; then EVERY single-bit flip of pointer_field, sections and stuffing (exhaustive per case), 24 random byte substitutions, 12 bursts of 2..32 bits, every truncation of the last 1..8 bytes and 6 insertions; oracle: each delivered item equals an original table unmodified, unless the independent section walker (bitwise CRC) accepts every CRC-bearing section of the corrupted unit; non-trivial = every case (hundreds of corruptions each); distinct by unit payload")
	defer rec.Flush()
	rapid.Check(t, func(t *rapid.T) {
		c := drawC09Case(t)
		clean, nerr := c.deliveredOn(c.stream(c.payload))
		secs, complete := ref.WalkSections(c.payload)
		if nerr != 0 || len(clean) != len(secs) || !complete {
			t.Fatalf("guard: the uncorrupted stream delivers %d items (%d errors) for %d sections: %x", len(clean), nerr, len(secs), c.payload)
		}
		originals := map[string]bool{}
		for _, s := range clean {
			originals[s] = true
		}
		nflips, escapes := 0, 0
		judge := func(corrupted []byte, what string) {
			v, esc := c09Judge(c, originals, corrupted, what)
			if v != "" {
				t.Fatal(v)
			}
			if esc {
				escapes++
			}
			nflips++
		}
		for i := 0; i < len(c.payload); i++ {
			for b := 0; b < 8; b++ {
				m := append([]byte{}, c.payload...)
				m[i] ^= 1 << uint(b)
				judge(m, fmt.Sprintf("bit %d of payload byte %d flipped", b, i))
			}
		}
		for k := 0; k < 24; k++ {
			i := rapid.IntRange(0, len(c.payload)-1).Draw(t, "subpos")
			v := rapid.Byte().Draw(t, "subval")
			m := append([]byte{}, c.payload...)
			m[i] = v
			judge(m, fmt.Sprintf("payload byte %d set to %#02x", i, v))
		}
		for k := 0; k < 12; k++ {
			start := rapid.IntRange(0, len(c.payload)*8-2).Draw(t, "burststart")
			l := rapid.IntRange(2, 32).Draw(t, "burstlen")
			pattern := rapid.Uint32().Draw(t, "burstpattern") | 1 | 1<<uint(l-1)
			m := append([]byte{}, c.payload...)
			for j := 0; j < l && start+j < len(m)*8; j++ {
				if pattern>>uint(j)&1 == 1 {
					m[(start+j)/8] ^= 0x80 >> uint((start+j)%8)
				}
			}
			judge(m, fmt.Sprintf("burst of %d bits at bit %d", l, start))
		}
		for cut := 1; cut <= 8 && cut < len(c.payload)-c.secStart; cut++ {
			judge(append([]byte{}, c.payload[:c.secEnd-cut]...), fmt.Sprintf("last %d section bytes removed", cut))
		}
		for k := 0; k < 6; k++ {
			i := rapid.IntRange(c.secStart, c.secEnd).Draw(t, "inspos")
			ins := gen.Bytes(t, rapid.IntRange(1, 4).Draw(t, "inslen"), "ins")
			m := append(append(append([]byte{}, c.payload[:i]...), ins...), c.payload[i:]...)
			judge(m, fmt.Sprintf("%d bytes inserted at %d", len(ins), i))
		}
		rec.ClassN("corruptions", int64(nflips))
		rec.ClassN("reference_decoder_accepted_the_corruption", int64(escapes))
		rec.Class(kindNames[c.kind])
		h := obs.NewHasher()
		h.Bytes(c.payload)
		rec.Case(h.Sum(), true, func() interface{} {
			return map[string]interface{}{"table": kindNames[c.kind], "unit_payload": hexHead(c.payload, 96), "sections": len(secs), "corruptions_tried": nflips}
		})
	})
}

func TestC09Mux(t *testing.T) {
	rec := obs.NewRecorder("C09", "mux_sections", "rapid: Muxer histories whose streams carry ES descriptors of every supported type and size (redundant Length field correct, 0 or arbitrary), including PMTs that exactly fill or overflow one packet: for every PAT/PMT packet written, the independent walker must land exactly on section_length, the bitwise CRC_32 must verify, the rest of the packet must be 0xFF, and the PMT must be byte-identical to the reference encoding of the configuration; non-trivial = a PMT with >= 2 descriptors; distinct by history")
	defer rec.Flush()
	rapid.Check(t, func(t *rapid.T) {
		n := rapid.IntRange(1, 6).Draw(t, "streams")
		var ops []muxOp
		budget := 167
		for i := 0; i < n; i++ {
			op := muxOp{kind: opAdd, pid: uint16(0x100 + i), stype: drawStreamType(t)}
			room := budget - 5
			if room < 0 {
				break
			}
			maxd := rapid.IntRange(0, 4).Draw(t, "ndesc")
			lim := room
			if !gen.Chance(t, 20, "allroom") {
				lim = min(room, rapid.IntRange(0, 60).Draw(t, "lim"))
			}
			if gen.Chance(t, 6, "overflow") {
				lim = room + rapid.IntRange(1, 30).Draw(t, "over") // PMT too large: the emission must fail cleanly
			}
			op.descs = gen.Descriptors(t, maxd, lim, "esd")
			for _, d := range op.descs {
				switch gen.Uniform(t, 3, "dlen") {
				case 1:
					d.Length = 0
				case 2:
					d.Length = uint8(rapid.IntRange(0, 255).Draw(t, "dlenv"))
				}
			}
			budget -= 5 + len(ref.EncodeDescriptors(op.descs))
			ops = append(ops, op)
			if gen.Chance(t, 50, "emit") {
				ops = append(ops, muxOp{kind: opSetPCR, sel: 0}, muxOp{kind: opTables})
			}
		}
		ops = append(ops, muxOp{kind: opSetPCR, sel: 0}, muxOp{kind: opTables})
		tr := runMuxHistory(40, false, ops, &writerSpy{})
		if v := analyzeC04(tr); v != "" {
			t.Fatalf("%s\nhistory:\n%s", v, tr.render())
		}
		if v, _ := analyzeC17(tr); v != "" {
			t.Fatalf("%s\nhistory:\n%s", v, tr.render())
		}
		if v := analyzeC01(tr); v != "" {
			t.Fatalf("%s\nhistory:\n%s", v, tr.render())
		}
		maxDescs, emitted, failed := 0, 0, 0
		for _, s := range tr.steps {
			if s.kind == opTables {
				if s.err != nil {
					failed++
					if s.cfgBefore.pmtFits() && s.cfgBefore.pcrValid() {
						t.Fatalf("step %d: WriteTables failed (%v) although the PMT fits one packet\n%s", s.idx, s.err, tr.render())
					}
					continue
				}
				if !s.cfgBefore.pmtFits() {
					t.Fatalf("step %d: WriteTables succeeded although the reference PMT needs more than one packet\n%s", s.idx, tr.render())
				}
				emitted++
				nd := 0
				for _, cs := range s.cfgBefore.streams {
					nd += len(cs.descs)
				}
				if nd > maxDescs {
					maxDescs = nd
				}
			}
		}
		if failed > 0 {
			rec.Class("pmt_too_large_rejected")
		}
		rec.ClassN("table_emissions", int64(emitted))
		rec.Case(historySig(tr), maxDescs >= 2, func() interface{} { return tr.render() })
	})
}

// oddCodes gives every language / country code field reachable from v (a []byte that the writer emits as exactly three
// bytes) a length of 0..6.
func oddCodes(t *rapid.T, v reflect.Value, n *int) {
	switch v.Kind() {
	case reflect.Ptr, reflect.Interface:
		if !v.IsNil() {
			oddCodes(t, v.Elem(), n)
		}
	case reflect.Slice:
		if v.Type().Elem().Kind() == reflect.Uint8 {
			return
		}
		for i := 0; i < v.Len(); i++ {
			oddCodes(t, v.Index(i), n)
		}
	case reflect.Struct:
		for i := 0; i < v.NumField(); i++ {
			f, name := v.Field(i), v.Type().Field(i).Name
			if f.Kind() == reflect.Slice && f.Type().Elem().Kind() == reflect.Uint8 && (name == "Language" || name == "LanguageCode" || name == "ISO639LanguageCode" || name == "CountryCode") && f.CanSet() {
				l := rapid.IntRange(0, 6).Draw(t, "codelen")
				f.SetBytes(gen.Bytes(t, l, "code"))
				if l != 3 {
					*n++
				}
				continue
			}
			oddCodes(t, f, n)
		}
	}
}

// TestC09OddCodes: language and country codes are written as exactly three bytes whatever the length of the slice in the
// struct; the lengths announced around them must follow what is written.
func TestC09OddCodes(t *testing.T) {
	rec := obs.NewRecorder("C09", "odd_codes", "rapid: 1..3 streams whose ES descriptors (all typed tags) have their language / country code slices resized to 0..6 bytes (the writer emits three bytes for each); after a successful WriteTables every PAT/PMT packet must hold a section whose section_length is followed by exactly that many bytes, whose CRC_32 verifies bitwise and which is followed by 0xFF only, and the ES_info loops of the PMT must walk descriptor by descriptor to the handed tags; non-trivial = at least one code not 3 bytes long; distinct by PMT bytes")
	defer rec.Flush()
	rapid.Check(t, func(t *rapid.T) {
		var buf cappedBuffer
		m := astits.NewMuxer(context.Background(), &buf)
		n := rapid.IntRange(1, 3).Draw(t, "streams")
		odd := 0
		var tags [][]uint8
		for i := 0; i < n; i++ {
			var ds []*astits.Descriptor
			for k := rapid.IntRange(1, 3).Draw(t, "ndesc"); k > 0; k-- {
				tag := gen.TypedTags[gen.Uniform(t, len(gen.TypedTags), "tag")]
				if d := gen.DescriptorOfTag(t, tag, 24, "d"); d != nil {
					ds = append(ds, d)
				}
			}
			oddCodes(t, reflect.ValueOf(ds), &odd)
			var tg []uint8
			for _, d := range ds {
				tg = append(tg, d.Tag)
			}
			tags = append(tags, tg)
			if err := m.AddElementaryStream(astits.PMTElementaryStream{ElementaryPID: uint16(0x100 + i), StreamType: astits.StreamTypeMPEG2Audio, ElementaryStreamDescriptors: ds}); err != nil {
				t.Fatal(err)
			}
		}
		m.SetPCRPID(0x100)
		if _, err := m.WriteTables(); err != nil {
			rec.Excluded("pmt_does_not_fit_one_packet")
			return
		}
		raw, ok := ref.SplitPackets(buf.Bytes())
		if !ok || len(raw) != 2 {
			t.Fatalf("WriteTables wrote %d bytes, want two packets", buf.Len())
		}
		var pmt []byte
		for i, r := range raw {
			p, err := ref.DecodeTS(r)
			if err != nil {
				t.Fatalf("table packet %d does not decode: %v", i, err)
			}
			sec, err := ref.TablePacketSection(p.Payload)
			if err != nil {
				t.Fatalf("table packet %d on PID %#x: %v\npayload %x", i, p.PID, err, p.Payload)
			}
			if p.PID != 0 {
				pmt = sec
			}
		}
		_, _, es, ok := ref.DecodePMT(pmt)
		if !ok || len(es) != n {
			t.Fatalf("the PMT does not walk to its %d streams (ok=%v, %d found): %x", n, ok, len(es), pmt)
		}
		for i, e := range es {
			var got []uint8
			for pos := 0; pos < len(e.Desc); {
				if pos+2 > len(e.Desc) || pos+2+int(e.Desc[pos+1]) > len(e.Desc) {
					t.Fatalf("stream %d: descriptor at %d of the ES_info loop crosses its end: %x", i, pos, e.Desc)
				}
				got = append(got, e.Desc[pos])
				pos += 2 + int(e.Desc[pos+1])
			}
			if !bytes.Equal(got, tags[i]) {
				t.Fatalf("stream %d: ES_info loop walks to tags %x, handed %x: %x", i, got, tags[i], e.Desc)
			}
		}
		h := obs.NewHasher()
		h.Bytes(pmt)
		rec.Case(h.Sum(), odd > 0, func() interface{} {
			return map[string]interface{}{"pmt_section": hexHead(pmt, 96), "codes_not_3_bytes": odd}
		})
	})
}
