package checks

import (
	"bytes"
	"context"
	"errors"
	"fmt"
	"testing"

	astits "github.com/asticode/go-astits"
	"pgregory.net/rapid"

	"verifharness/gen"
	"verifharness/obs"
	"verifharness/ref"
)

// C20 — Rewind restarts demuxing from a clean state.

func TestC20Rewind(t *testing.T) {
	rec := obs.NewRecorder("C20", "rewind", "rapid: well-formed streams (PAT before PMTs, constant PID roles, multi-section units, units over several packets; 30% end in the middle of a packet; the PAT's programme 0 may name a PID of its own that carries NIT sections, also before the PAT) on a bytes.Reader x {explicit 188, auto-detected size} x {no skipper, a PacketSkipper dropping one PID} x EVERY number k of calls before Rewind (k = 0..total, the calls being NextData, NextPacket or a drawn mixture) x a second Rewind at a drawn point; oracle: Rewind returns (0, nil) and the NextData sequence afterwards equals a fresh Demuxer's on the same bytes (as does NextPacket's); non-trivial = some rewind point falls in the middle of a unit or with parsed sections still buffered (true for every stream with a multi-packet or multi-section unit); distinct by stream bytes + configuration")
	defer rec.Flush()
	rapid.Check(t, func(t *rapid.T) {
		o := defaultStreamOpts()
		o.smallPSI, o.maxPESLen, o.maxUnits, o.networkPID = true, 700, 3, true
		m := drawStream(t, o)
		auto := gen.Bool(t, "auto")
		stream := m.bytes()
		if gen.Chance(t, 30, "tail") {
			// the input ends in the middle of a packet
			stream = append(stream, ref.NullPacket(0xff).MustEncode()[:rapid.IntRange(1, 187).Draw(t, "taillen")]...)
			rec.Class("truncated_last_packet")
		}
		if auto {
			// keeps the 193-byte detection window free of spurious sync bytes
			stream = append(ref.NullPacket(0xff).MustEncode(), stream...)
		}
		if len(stream) > 188*60 {
			t.Skip("stream too long for an exhaustive rewind sweep")
		}
		mode := gen.Uniform(t, 3, "mode") // 0 NextData, 1 NextPacket, 2 mixture
		mix := rapid.SliceOfN(rapid.Bool(), 32, 32).Draw(t, "mix")
		var opts []func(*astits.Demuxer)
		if !auto {
			opts = append(opts, astits.DemuxerOptPacketSize(188))
		}
		if gen.Chance(t, 30, "skipper") {
			// a PacketSkipper set by option stays in force after a Rewind, as it is for a fresh Demuxer given the same options
			var cands []uint16
			for _, pid := range m.pids {
				if pid != 0 && !m.pmtPIDs[pid] {
					cands = append(cands, pid)
				}
			}
			if len(cands) > 0 {
				skipPID := cands[gen.Uniform(t, len(cands), "skippid")]
				opts = append(opts, astits.DemuxerOptPacketSkipper(func(p *astits.Packet) bool { return p.Header.PID == skipPID }))
				rec.Class("with_packet_skipper")
			}
		}
		fresh := demuxAllR(bytes.NewReader(stream), len(stream)/188+64, opts...)
		if len(fresh.errs) > 0 || !fresh.ended {
			t.Fatalf("fresh demuxer reports errors: %s", errStrings(fresh.errs))
		}
		var want []string
		for _, it := range fresh.items {
			want = append(want, obs.Canon(it))
		}
		total := len(stream)/188 + len(want) + 2
		multi := false
		for _, u := range m.units {
			if len(u.packets) >= 2 || len(u.sections) >= 2 {
				multi = true
			}
		}
		nrew := 0
		for k := 0; k <= total; k++ {
			d := astits.NewDemuxer(context.Background(), bytes.NewReader(stream), opts...)
			step := func(i int) bool {
				usePacket := mode == 1 || (mode == 2 && mix[i%32])
				var err error
				if usePacket {
					_, err = d.NextPacket()
				} else {
					_, err = d.NextData()
				}
				return err == nil
			}
			for i := 0; i < k; i++ {
				step(i)
			}
			n, err := d.Rewind()
			if n != 0 || err != nil {
				t.Fatalf("Rewind after %d calls returned (%d, %v), want (0, nil)", k, n, err)
			}
			if k%5 == 2 {
				// rewind again after a few more calls
				for i := 0; i < k%7; i++ {
					step(i + k)
				}
				if n, err := d.Rewind(); n != 0 || err != nil {
					t.Fatalf("second Rewind returned (%d, %v)", n, err)
				}
			}
			var got []string
			ended := false
			for i := 0; i < len(stream)/188+len(want)+64; i++ {
				x, err := d.NextData()
				if err == astits.ErrNoMorePackets {
					ended = true
					break
				}
				if err != nil {
					t.Fatalf("after Rewind (following %d calls): NextData error %v\nstream: %s", k, err, m.describe())
				}
				got = append(got, obs.Canon(x))
			}
			if !ended || !equalStrings(got, want) {
				t.Fatalf("after Rewind following %d calls (%s, auto-detect=%v): %d items delivered, a fresh demuxer delivers %d%s\nstream: %s\norder: %s", k, []string{"NextData", "NextPacket", "mixed"}[mode], auto, len(got), len(want), firstDiff(got, want), m.describe(), m.order())
			}
			nrew++
		}
		rec.ClassN("rewind_points", int64(nrew))
		if auto {
			rec.Class("auto_detect")
		}
		h := obs.NewHasher()
		h.Bytes(stream)
		h.Int(int64(mode))
		if auto {
			h.Int(7)
		}
		rec.Case(h.Sum(), multi, func() interface{} {
			return map[string]interface{}{"stream": m.describe(), "rewind_points": nrew, "auto_detect": auto, "api_before_rewind": fmt.Sprint([]string{"NextData", "NextPacket", "mixed"}[mode])}
		})
	})
}

// c20Outcomes drains NextData: canonical items, "E" for an error ("E:reader" when it wraps the injected reader failure),
// "END" for ErrNoMorePackets.
func c20Outcomes(d *astits.Demuxer, limit int) []string {
	var out []string
	for i := 0; i < limit; i++ {
		x, err := d.NextData()
		switch {
		case err == astits.ErrNoMorePackets:
			return append(out, "END")
		case errors.Is(err, errInjected):
			out = append(out, "E:reader")
		case err != nil:
			out = append(out, "E")
		default:
			out = append(out, obs.Canon(x))
		}
	}
	return append(out, "NO-END")
}

// TestC20Hostile: Rewind on inputs and readers that produce errors. The streams carry no PMT PIDs, so that the program
// map (which Rewind keeps, hence the property's "PAT precedes PMTs") plays no part.
func TestC20Hostile(t *testing.T) {
	rec := obs.NewRecorder("C20", "rewind_hostile", "rapid: streams without PMT PIDs on a seekable reader, made hostile in one of three ways: the first sync byte corrupted (auto-detection fails at first), 1..400 garbage bytes in front (auto-detection), or a reader that fails ONCE at a drawn offset (explicit or detected size); Rewind after EVERY number k of NextData/NextPacket calls; oracle: Rewind returns (0, nil) and the sequence of items, errors and ErrNoMorePackets afterwards equals that of a fresh Demuxer on a reader in the same state (the one-shot failure already spent or still to come); non-trivial = every case; distinct by input bytes + variant")
	defer rec.Flush()
	rapid.Check(t, func(t *rapid.T) {
		o := defaultStreamOpts()
		o.smallPSI, o.maxPESLen, o.maxUnits, o.maxPMTPIDs = true, 500, 2, 0
		m := drawStream(t, o)
		stream := append(ref.NullPacket(0xff).MustEncode(), m.bytes()...)
		if len(stream) > 188*40 {
			stream = stream[:188*40]
		}
		variant := gen.Uniform(t, 3, "variant")
		auto := true
		failAt := -1
		switch variant {
		case 0:
			stream[0] ^= byte(1 << uint(gen.Uniform(t, 8, "syncbit")))
		case 1:
			g := gen.Bytes(t, rapid.IntRange(1, 400).Draw(t, "garbagelen"), "garbage")
			stream = append(g, stream...)
		case 2:
			auto = gen.Bool(t, "auto")
			failAt = rapid.IntRange(0, len(stream)-1).Draw(t, "failat")
		}
		var opts []func(*astits.Demuxer)
		if !auto {
			opts = append(opts, astits.DemuxerOptPacketSize(188))
		}
		usePacket := rapid.SliceOfN(rapid.Bool(), 16, 16).Draw(t, "usepacket")
		limit := len(stream)/188 + 80
		total := len(stream)/188 + 12
		n := 0
		for k := 0; k <= total; k++ {
			fr := &faultReader{data: stream, failAt: failAt, oneShot: true}
			d := astits.NewDemuxer(context.Background(), seekFaultReader{fr}, opts...)
			for i := 0; i < k; i++ {
				if usePacket[i%16] {
					_, _ = d.NextPacket()
				} else {
					_, _ = d.NextData()
				}
			}
			off, err := d.Rewind()
			if off != 0 || err != nil {
				t.Fatalf("Rewind after %d calls returned (%d, %v), want (0, nil)", k, off, err)
			}
			spent := fr.tripped
			got := c20Outcomes(d, limit)
			fresh := &faultReader{data: stream, failAt: failAt, oneShot: true, tripped: spent}
			want := c20Outcomes(astits.NewDemuxer(context.Background(), seekFaultReader{fresh}, opts...), limit)
			if !equalStrings(got, want) {
				t.Fatalf("variant %d (auto-detect=%v, reader fails once at %d, already failed before the rewind=%v): after Rewind following %d calls the outcomes are %v, a fresh demuxer gives %v\nstream: %s", variant, auto, failAt, spent, k, shortOutcomes(got), shortOutcomes(want), m.describe())
			}
			n++
		}
		rec.ClassN("rewind_points", int64(n))
		rec.Class([]string{"first_sync_byte_corrupted", "garbage_prefix", "reader_failing_once"}[variant])
		h := obs.NewHasher()
		h.Bytes(stream)
		h.Int(int64(variant*100000 + failAt))
		rec.Case(h.Sum(), true, func() interface{} {
			return map[string]interface{}{"variant": []string{"first_sync_byte_corrupted", "garbage_prefix", "reader_failing_once"}[variant], "input_bytes": len(stream), "rewind_points": n}
		})
	})
}
