package checks

import (
	"bufio"
	"context"
	"errors"
	"fmt"
	"io"
	"testing"

	astits "github.com/asticode/go-astits"
	"pgregory.net/rapid"

	"verifharness/gen"
	"verifharness/obs"
	"verifharness/ref"
)

// C18 — failures of the underlying reader or writer are always surfaced to the caller.

var errInjected = errors.New("verif: injected I/O failure")

// faultReader hands out data in chunks and fails with errInjected once failAt bytes have been delivered.
type faultReader struct {
	data     []byte
	pos      int
	failAt   int // -1 = never
	chunk    int
	sched    []int // sizes of the first reads; afterwards chunk applies
	si       int
	tripped  bool
	seekable bool
	oneShot  bool // fail once, then go on delivering the data
	eofData  bool // the Read that delivers the last bytes also returns io.EOF (as io.Reader allows)
}

func (f *faultReader) Read(p []byte) (int, error) {
	if f.failAt >= 0 && f.pos >= f.failAt && !(f.oneShot && f.tripped) {
		f.tripped = true
		return 0, errInjected
	}
	if f.pos >= len(f.data) {
		return 0, io.EOF
	}
	n := len(p)
	if f.si < len(f.sched) {
		if n > f.sched[f.si] {
			n = f.sched[f.si]
		}
		f.si++
	} else if f.chunk > 0 && n > f.chunk {
		n = f.chunk
	}
	if n < 1 {
		n = 1
	}
	if n > len(f.data)-f.pos {
		n = len(f.data) - f.pos
	}
	if f.failAt >= 0 && !f.tripped && n > f.failAt-f.pos {
		n = f.failAt - f.pos // partial read right before the failure
	}
	copy(p, f.data[f.pos:f.pos+n])
	f.pos += n
	if f.eofData && f.pos == len(f.data) {
		return n, io.EOF
	}
	return n, nil
}

type seekFaultReader struct{ *faultReader }

func (s seekFaultReader) Seek(off int64, whence int) (int64, error) {
	if whence != io.SeekStart {
		return 0, errors.New("unsupported whence")
	}
	s.faultReader.pos = int(off)
	return off, nil
}

const (
	rkPlain = iota
	rkSeek
	rkBufio
)

var rkNames = []string{"plain", "seekable", "bufio"}

type readerCfg struct {
	kind    int
	auto    bool
	chunk   int
	oneShot bool
}

func (c readerCfg) String() string {
	return fmt.Sprintf("%s reader, auto-detect=%v, chunk=%d, one-shot failure=%v", rkNames[c.kind], c.auto, c.chunk, c.oneShot)
}

func (c readerCfg) build(data []byte, failAt int) (io.Reader, *faultReader, []func(*astits.Demuxer)) {
	fr := &faultReader{data: data, failAt: failAt, chunk: c.chunk, oneShot: c.oneShot}
	var r io.Reader = fr
	switch c.kind {
	case rkSeek:
		r = seekFaultReader{fr}
	case rkBufio:
		r = bufio.NewReaderSize(fr, 4096)
	}
	var opts []func(*astits.Demuxer)
	if !c.auto {
		opts = append(opts, astits.DemuxerOptPacketSize(188))
	}
	return r, fr, opts
}

// c18Reader runs NextData under a reader that fails at failAt and checks the oracle against the fault-free canon list.
func c18Reader(data []byte, c readerCfg, failAt int, clean []string) string {
	r, fr, opts := c.build(data, failAt)
	d := astits.NewDemuxer(context.Background(), r, opts...)
	delivered := 0
	for calls := 0; calls < len(data)/188+len(clean)+32; calls++ {
		was := fr.tripped
		it, err := func() (it *astits.DemuxerData, err error) {
			defer func() {
				if p := recover(); p != nil {
					err = fmt.Errorf("PANIC: %v", p)
				}
			}()
			return d.NextData()
		}()
		if err != nil && len(err.Error()) > 6 && err.Error()[:6] == "PANIC:" {
			return fmt.Sprintf("%v (reader failing at offset %d)", err, failAt)
		}
		if err == astits.ErrNoMorePackets {
			return fmt.Sprintf("reader failing at offset %d: NextData returned ErrNoMorePackets instead of the reader's error (%d items delivered before)", failAt, delivered)
		}
		if err != nil {
			if !errors.Is(err, errInjected) {
				return fmt.Sprintf("reader failing at offset %d: NextData returned %q, which does not wrap the reader's error", failAt, err)
			}
			return ""
		}
		// an item: must continue the fault-free sequence
		if delivered >= len(clean) || obs.Canon(it) != clean[delivered] {
			return fmt.Sprintf("reader failing at offset %d: item %d delivered before the failure is not item %d of the fault-free output", failAt, delivered, delivered)
		}
		delivered++
		if c.kind != rkBufio && !was && fr.tripped {
			return fmt.Sprintf("reader failing at offset %d: the call during which the read failed returned data and no error", failAt)
		}
	}
	return fmt.Sprintf("reader failing at offset %d: no error surfaced", failAt)
}

func TestC18Reader(t *testing.T) {
	rec := obs.NewRecorder("C18", "reader", "rapid: well-formed streams (reference multiplexer, >= 3 packets) x reader kinds {plain, seekable, bufio} x {explicit packet size, auto-detection} x read chunk sizes {unlimited, 1..400} x {the reader keeps failing, it fails once and then goes on}; the reader fails with a sentinel error at EVERY byte offset of the stream (exhaustive per stream and configuration, with a partial read right before the failure); oracle: the call during which the read fails returns an error wrapping the sentinel (errors.Is), never ErrNoMorePackets, never a panic, and the items delivered before are a prefix of the fault-free output of the same configuration; non-trivial = every case (all offsets); distinct by stream bytes + configuration")
	defer rec.Flush()
	rapid.Check(t, func(t *rapid.T) {
		o := defaultStreamOpts()
		o.maxPESLen, o.maxUnits, o.maxPESPIDs, o.smallPSI = 400, 2, 2, true
		m := drawStream(t, o)
		// two null packets first: with a plain reader auto-detection consumes its 193-byte window (documented), which
		// must not cost the stream a packet of a unit
		null := ref.NullPacket(0xff).MustEncode()
		data := append(append(append([]byte{}, null...), null...), m.bytes()...)
		if len(m.packets) < 3 {
			t.Skip("stream too short")
		}
		if len(data) > 188*40 {
			data = data[:188*40]
		}
		c := readerCfg{kind: gen.Uniform(t, 3, "rk"), auto: gen.Bool(t, "auto"), oneShot: gen.Bool(t, "oneshot")}
		switch gen.Uniform(t, 4, "chk") {
		case 0:
			c.chunk = 0
		case 1:
			c.chunk = 1
		default:
			c.chunk = rapid.IntRange(1, 400).Draw(t, "chunk")
		}
		// fault-free reference of the same configuration
		r, _, opts := c.build(data, -1)
		res := demuxAllR(r, len(data)/188+64, opts...)
		if !res.ended || len(res.errs) > 0 {
			t.Fatalf("%s: fault-free run: ended=%v errors=%s\nstream %s", c, res.ended, errStrings(res.errs), m.describe())
		}
		var clean []string
		for _, it := range res.items {
			clean = append(clean, obs.Canon(it))
		}
		step := 1
		if len(data) > 188*12 && c.chunk == 1 {
			step = 3 // one-byte reads over long streams: every third offset keeps the case affordable
		}
		n := 0
		for off := 0; off < len(data); off += step {
			if v := c18Reader(data, c, off, clean); v != "" {
				t.Fatalf("%s: %s\nstream %s", c, v, m.describe())
			}
			n++
		}
		rec.ClassN("fault_offsets", int64(n))
		rec.Class(rkNames[c.kind])
		if c.auto {
			rec.Class("auto_detect")
		}
		if c.oneShot {
			rec.Class("one_shot_failure")
		}
		h := obs.NewHasher()
		h.Bytes(data)
		h.Int(int64(c.kind*2 + c.chunk*8))
		h.Int(int64(map[bool]int{true: 1}[c.oneShot]))
		if c.auto {
			h.Int(1)
		}
		rec.Case(h.Sum(), true, func() interface{} {
			return map[string]interface{}{"stream": m.describe(), "configuration": c.String(), "fault_offsets": n, "items_fault_free": len(clean)}
		})
	})
}

func TestC18Writer(t *testing.T) {
	rec := obs.NewRecorder("C18", "writer", "rapid: Muxer histories (WriteTables/WriteData/WritePacket with payloads whose last packet needs 0, 1, 2 and many stuffing bytes) run once fault-free to count the writer's Write calls, then once per Write call index k and per mode {permanent, one-shot} with the k-th Write failing with a sentinel (exhaustive over k); oracle: every Muxer call during which a Write failed returns an error wrapping the sentinel and a byte count not larger than what the writer accepted during that call; non-trivial = every case; distinct by history")
	defer rec.Flush()
	rapid.Check(t, func(t *rapid.T) {
		prof := muxProfile{maxOps: 8, writePacket: true, bigAF: true}
		period, setp, ops := genMuxHistory(t, prof)
		for i := range ops {
			if ops[i].kind == opData && len(ops[i].pes.Payload) > 500 {
				ops[i].pes.Payload = ops[i].pes.Payload[:1+len(ops[i].pes.Payload)%400]
			}
		}
		base := runMuxHistory(period, setp, ops, &writerSpy{})
		w := base.writes
		if w == 0 {
			t.Skip("history writes nothing")
		}
		if w > 600 {
			w = 600
		}
		stuff1 := false
		for _, s := range base.steps {
			if s.kind == opData && s.err == nil {
				afs := 0
				if s.af != nil {
					afs = s.af.Size()
				}
				if (s.pes.HeaderSize()+len(s.pes.Payload)+afs)%184 == 183 {
					stuff1 = true
				}
			}
		}
		cases := 0
		for k := 1; k <= w; k++ {
			for _, oneShot := range []bool{false, true} {
				k, oneShot := k, oneShot
				spy := &writerSpy{}
				spy.fault = func(call int, p []byte) (int, error) {
					if call == k || (!oneShot && call > k) {
						return 0, errInjected
					}
					return len(p), nil
				}
				tr := runMuxHistory(period, setp, ops, spy)
				for _, s := range tr.steps {
					if !s.writeFailed {
						continue
					}
					if s.err == nil || !errors.Is(s.err, errInjected) {
						t.Fatalf("Write call %d failing (%s): step %d %s returned err=%v, which does not wrap the writer's error; n=%d accepted=%d\nhistory:\n%s", k, mode(oneShot), s.idx, s.desc, s.err, s.n, len(s.out), tr.render())
					}
					if s.n > len(s.out) {
						t.Fatalf("Write call %d failing (%s): step %d %s reports n=%d but the writer accepted %d bytes during the call\nhistory:\n%s", k, mode(oneShot), s.idx, s.desc, s.n, len(s.out), tr.render())
					}
				}
				cases++
			}
		}
		rec.ClassN("fault_positions_x_modes", int64(cases))
		if stuff1 {
			rec.Class("unit_needing_exactly_1_stuffing_byte")
		}
		rec.Case(historySig(base), true, func() interface{} {
			return map[string]interface{}{"history": base.render(), "write_calls": base.writes, "fault_cases": cases}
		})
	})
}

func mode(oneShot bool) string {
	if oneShot {
		return "one-shot"
	}
	return "permanent"
}
