package checks

import (
	"bytes"
	"context"
	"fmt"
	"runtime"
	"sync"
	"testing"

	astits "github.com/asticode/go-astits"
	"pgregory.net/rapid"

	"verifharness/conv"
	"verifharness/gen"
	"verifharness/obs"
)

// C16 — returned results are never mutated later; independent instances do not interfere.

func c16Stream(t *rapid.T, label string) *streamModel {
	o := defaultStreamOpts()
	o.smallPSI, o.maxPESLen, o.maxUnits, o.zeroPayload, o.hugePES, o.teiNoise = true, 900, 3, true, true, true
	_ = label
	return drawStream(t, o)
}

type heldResult struct {
	what string
	v    interface{}
	snap string
}

func TestC16Aliasing(t *testing.T) {
	rec := obs.NewRecorder("C16", "aliasing", "rapid: two well-formed streams rich in byte slices (PES payloads, adaptation field private data, PES private/extension-2 data, descriptors of every type, CAT/null noise), each on its own Demuxer, driven alternately in a drawn order with NextPacket or NextData; every returned Packet/DemuxerData is rendered canonically at delivery and re-rendered after EVERY later call on either Demuxer and at the end: any change is a violation (a returned slice aliasing a reused read buffer or a pooled payload buffer); with NextPacket, adaptation fields of received packets are also handed to a Muxer whose writer fails mid-packet (they then belong to the caller; every other result must be unchanged); non-trivial = >= 6 results held while >= 6 later calls run; distinct by the two streams' bytes")
	defer rec.Flush()
	rapid.Check(t, func(t *rapid.T) {
		ma, mb := c16Stream(t, "a"), c16Stream(t, "b")
		sa, sb := ma.bytes(), mb.bytes()
		usePackets := gen.Chance(t, 35, "packets")
		da := astits.NewDemuxer(context.Background(), bytes.NewReader(sa), astits.DemuxerOptPacketSize(188))
		db := astits.NewDemuxer(context.Background(), bytes.NewReader(sb), astits.DemuxerOptPacketSize(188))
		sched := rapid.SliceOfN(rapid.Bool(), 64, 64).Draw(t, "schedule")
		remux := rapid.SliceOfN(rapid.Bool(), 64, 64).Draw(t, "remux")
		remuxed := 0
		big := false
		var held []*heldResult
		doneA, doneB := false, false
		calls := 0
		verify := func(after string) {
			for i, h := range held {
				if now := obs.Canon(h.v); now != h.snap {
					t.Fatalf("result %d (%s) changed after %s:\n%s\nstreams: A %s | B %s", i, h.what, after, obs.Diff(now, h.snap), ma.describe(), mb.describe())
				}
			}
		}
		for i := 0; !(doneA && doneB) && i < 4000; i++ {
			onA := sched[i%64]
			if doneA {
				onA = false
			} else if doneB {
				onA = true
			}
			d, name := db, "B"
			if onA {
				d, name = da, "A"
			}
			var v interface{}
			var err error
			if usePackets {
				var p *astits.Packet
				p, err = d.NextPacket()
				v = p
			} else {
				var x *astits.DemuxerData
				x, err = d.NextData()
				v = x
			}
			calls++
			what := fmt.Sprintf("call %d on demuxer %s", i, name)
			if err == astits.ErrNoMorePackets {
				if onA {
					doneA = true
				} else {
					doneB = true
				}
			} else if err != nil {
				t.Fatalf("%s: error %v", what, err)
			}
			if !big || i%16 == 0 {
				// (with a 64 KiB result held, re-rendering everything after every call is quadratic: every 16th call and the end)
				verify(what)
			}
			if err == nil {
				h := &heldResult{what: what, v: v, snap: obs.Canon(v)}
				big = big || len(h.snap) > 20000
				held = append(held, h)
			}
			if usePackets && remux[i%64] && len(held) > 0 {
				// the caller remuxes: it hands the adaptation field of a packet it received to a Muxer whose writer fails in
				// the middle of the PES packet. That adaptation field is the caller's from then on (the Muxer records
				// stuffing in it); every OTHER result must stay as it was
				pick := -1
				for k := len(held) - 1; k >= 0 && k >= len(held)-8; k-- {
					if p := held[k].v.(*astits.Packet); p.AdaptationField != nil && (pick < 0 || p.AdaptationField.Length == 0) {
						pick = k
					}
				}
				if pick >= 0 {
					af := held[pick].v.(*astits.Packet).AdaptationField
					mx := astits.NewMuxer(context.Background(), &refusingWriter{left: 2*188 + 4 + i%100})
					_ = mx.AddElementaryStream(astits.PMTElementaryStream{ElementaryPID: 0x100, StreamType: astits.StreamTypeMPEG2Video})
					mx.SetPCRPID(0x100)
					_, _ = mx.WriteData(&astits.MuxerData{PID: 0x100, AdaptationField: af, PES: &astits.PESData{Header: &astits.PESHeader{StreamID: 0xe0}, Data: []byte{1, 2, 3, 4, 5}}})
					held = append(held[:pick:pick], held[pick+1:]...)
					verify(fmt.Sprintf("the adaptation field of an earlier result was handed to a Muxer (after %s)", what))
					remuxed++
				}
			}
		}
		// pressure on the pools, then a last look
		runtime.GC()
		verify("the end of both streams and a garbage collection")
		if remuxed > 0 {
			rec.ClassN("adaptation_fields_handed_to_a_failing_muxer", int64(remuxed))
		}
		h := obs.NewHasher()
		h.Bytes(sa)
		h.Bytes(sb)
		rec.Case(h.Sum(), len(held) >= 6 && calls >= 12, func() interface{} {
			return map[string]interface{}{"stream_a": ma.describe(), "stream_b": mb.describe(), "results_held": len(held), "calls": calls, "api": map[bool]string{true: "NextPacket", false: "NextData"}[usePackets]}
		})
	})
}

func TestC16MuxerInputs(t *testing.T) {
	rec := obs.NewRecorder("C16", "muxer_inputs", "rapid: Muxer histories; the caller-owned byte slices handed to the Muxer (PES payload, PES private data and extension-2 data, adaptation field private data, descriptor bytes, WritePacket payload/private data) are copied before each call and compared after it and again at the end of the history: the Muxer must not have written into them; non-trivial = >= 3 WriteData calls with payload; distinct by history")
	defer rec.Flush()
	rapid.Check(t, func(t *rapid.T) {
		period, _, ops := genMuxHistory(t, muxProfile{maxOps: 25, writePacket: true, bigAF: true})
		var buf cappedBuffer
		m := astits.NewMuxer(context.Background(), &buf, astits.MuxerOptTablesRetransmitPeriod(period))
		type watched struct {
			what string
			live func() string
			orig string
		}
		var ws []watched
		var pids []uint16
		ndata := 0
		for i := range ops {
			op := &ops[i]
			switch op.kind {
			case opAdd:
				pid := op.pid
				if op.auto {
					pid = 0
				}
				es := astits.PMTElementaryStream{ElementaryPID: pid, StreamType: op.stype, ElementaryStreamDescriptors: op.descs}
				ds := op.descs
				ws = append(ws, watched{fmt.Sprintf("descriptors of Add #%d", i), func() string { return obs.Canon(ds, "Length") }, obs.Canon(ds, "Length")})
				if m.AddElementaryStream(es) == nil && !op.auto {
					pids = append(pids, pid)
				}
			case opRemove:
				if len(pids) > 1 {
					_ = m.RemoveElementaryStream(pids[len(pids)-1])
					pids = pids[:len(pids)-1]
				}
			case opSetPCR:
				if len(pids) > 0 {
					m.SetPCRPID(pids[0])
				}
			case opTables:
				_, _ = m.WriteTables()
			case opData:
				if len(pids) == 0 {
					continue
				}
				d := &astits.MuxerData{PID: pids[op.sel%len(pids)], PES: conv.PESStruct(op.pes, false, op.pes.Payload, 0)}
				if !hasOptHeaderLib(op.pes.StreamID) {
					d.PES.Header.OptionalHeader = nil
				}
				if op.af != nil {
					d.AdaptationField = conv.AFStruct(op.af, false)
				}
				// the payload is a sub-slice of a larger buffer: the bytes after it are the caller's too
				big := make([]byte, len(d.PES.Data)+48)
				copy(big, d.PES.Data)
				for k := len(d.PES.Data); k < len(big); k++ {
					big[k] = byte(0x30 + k%7)
				}
				d.PES.Data = big[:len(d.PES.Data)]
				payload := big
				var priv, ext2, afpriv []byte
				if oh := d.PES.Header.OptionalHeader; oh != nil {
					priv, ext2 = oh.PrivateData, oh.Extension2Data
				}
				if d.AdaptationField != nil {
					afpriv = d.AdaptationField.TransportPrivateData
				}
				render := func() string {
					return fmt.Sprintf("%x|%x|%x|%x", payload, priv, ext2, afpriv)
				}
				orig := render()
				_, _ = m.WriteData(d)
				if now := render(); now != orig {
					t.Fatalf("WriteData #%d modified the caller's bytes:\n%s", i, obs.Diff(now, orig))
				}
				ws = append(ws, watched{fmt.Sprintf("buffers of WriteData #%d", i), render, orig})
				if len(payload) > 0 {
					ndata++
				}
			case opPacket:
				p := op.pkt
				var afpriv []byte
				if p.AdaptationField != nil {
					afpriv = p.AdaptationField.TransportPrivateData
				}
				// same for WritePacket: a payload shorter than the room left is padded by the writer, which must not happen in
				// the caller's spare capacity
				bigp := make([]byte, len(p.Payload)+48)
				copy(bigp, p.Payload)
				for k := len(p.Payload); k < len(bigp); k++ {
					bigp[k] = byte(0x40 + k%5)
				}
				p.Payload = bigp[:len(p.Payload)]
				pl := bigp
				render := func() string { return fmt.Sprintf("%x|%x", pl, afpriv) }
				orig := render()
				_, _ = m.WritePacket(p)
				ws = append(ws, watched{fmt.Sprintf("buffers of WritePacket #%d", i), render, orig})
			}
			for _, w := range ws {
				if now := w.live(); now != w.orig {
					t.Fatalf("%s changed after operation #%d (%s):\n%s", w.what, i, opNames[op.kind], obs.Diff(now, w.orig))
				}
			}
		}
		h := obs.NewHasher()
		h.Bytes(buf.Bytes())
		rec.Case(h.Sum(), ndata >= 3, func() interface{} {
			return map[string]interface{}{"operations": len(ops), "writedata_calls": ndata, "output_bytes": buf.Len()}
		})
	})
}

// c16Job is one independent instance's work and its sequential result.
type c16Job struct {
	demux  bool
	stream []byte
	period int
	ops    []muxOp
	want   string
}

func (j *c16Job) run(yields int) string {
	for i := 0; i < yields; i++ {
		runtime.Gosched()
	}
	if j.demux {
		// a reader that yields the processor every few reads multiplies the interleavings of concurrent instances
		yr := &yieldingReader{r: bytes.NewReader(j.stream), every: 1 + yields%3}
		res := demuxAllR(yr, len(j.stream)/188+64, astits.DemuxerOptPacketSize(188))
		s := fmt.Sprintf("errs=%d ended=%v;", len(res.errs), res.ended)
		for _, it := range res.items {
			s += obs.Canon(it) + ";"
		}
		d := astits.NewDemuxer(context.Background(), bytes.NewReader(j.stream), astits.DemuxerOptPacketSize(188))
		for {
			p, err := d.NextPacket()
			if err != nil {
				break
			}
			s += obs.Canon(p.Header) + ";"
		}
		return s
	}
	ops := make([]muxOp, len(j.ops))
	copy(ops, j.ops)
	tr := runMuxHistory(j.period, true, ops, &writerSpy{})
	s := fmt.Sprintf("%x;", tr.out)
	for _, st := range tr.steps {
		s += fmt.Sprintf("%d,%v;", st.n, st.err != nil)
	}
	return s
}

func TestC16Concurrent(t *testing.T) {
	rec := obs.NewRecorder("C16", "concurrent", "rapid (binary built with the race detector): N in 2..64 goroutines, each with its own Demuxer (NextData and NextPacket over its own generated stream, CAT/null noise included) or its own Muxer (its own generated history), started with drawn Gosched offsets while another goroutine forces garbage collections (sync.Pool eviction); each goroutine's result must equal the result of the same job run alone beforehand; any data race report fails the run; non-trivial = >= 4 goroutines with both Demuxers and Muxers; distinct by the jobs' inputs")
	defer rec.Flush()
	rapid.Check(t, func(t *rapid.T) {
		n := rapid.IntRange(2, 16).Draw(t, "n")
		if gen.Chance(t, 15, "many") {
			n = rapid.IntRange(17, 64).Draw(t, "nmany")
		}
		jobs := make([]*c16Job, n)
		h := obs.NewHasher()
		nd, nm := 0, 0
		// a few distinct inputs reused by several goroutines keep generation cheap
		kinds := rapid.IntRange(2, 6).Draw(t, "kinds")
		protos := make([]*c16Job, kinds)
		for k := range protos {
			if gen.Chance(t, 65, "isdemux") {
				m := c16Stream(t, fmt.Sprintf("j%d", k))
				protos[k] = &c16Job{demux: true, stream: m.bytes()}
			} else {
				period, _, ops := genMuxHistory(t, muxProfile{maxOps: 20, bigAF: true})
				for i := range ops {
					if ops[i].kind == opData && len(ops[i].pes.Payload) > 600 {
						ops[i].pes.Payload = ops[i].pes.Payload[:1+len(ops[i].pes.Payload)%500]
					}
				}
				protos[k] = &c16Job{period: period, ops: ops}
			}
			protos[k].want = protos[k].run(0)
			h.String(protos[k].want[:min(len(protos[k].want), 2000)])
		}
		yields := make([]int, n)
		for i := range jobs {
			p := protos[rapid.IntRange(0, kinds-1).Draw(t, "proto")]
			jobs[i] = &c16Job{demux: p.demux, stream: p.stream, period: p.period, ops: p.ops, want: p.want}
			yields[i] = rapid.IntRange(0, 20).Draw(t, "yield")
			if p.demux {
				nd++
			} else {
				nm++
			}
		}
		stop := make(chan struct{})
		var gcwg sync.WaitGroup
		gcwg.Add(1)
		go func() {
			defer gcwg.Done()
			for {
				select {
				case <-stop:
					return
				default:
					runtime.GC()
					runtime.Gosched()
				}
			}
		}()
		got := make([]string, n)
		panics := make([]string, n)
		var wg sync.WaitGroup
		for i := range jobs {
			wg.Add(1)
			go func(i int) {
				defer wg.Done()
				defer func() {
					if p := recover(); p != nil {
						panics[i] = fmt.Sprint(p)
					}
				}()
				got[i] = jobs[i].run(yields[i])
			}(i)
		}
		wg.Wait()
		close(stop)
		gcwg.Wait()
		for i := range jobs {
			if panics[i] != "" {
				t.Fatalf("goroutine %d of %d (demuxer=%v) panicked while running concurrently: %s", i, n, jobs[i].demux, panics[i])
			}
			if got[i] != jobs[i].want {
				t.Fatalf("goroutine %d of %d (demuxer=%v): the result differs from the same job run alone:\n%s", i, n, jobs[i].demux, obs.Diff(got[i], jobs[i].want))
			}
		}
		rec.ClassN("goroutines", int64(n))
		rec.Case(h.Sum(), n >= 4 && nd > 0 && nm > 0, func() interface{} {
			return map[string]interface{}{"goroutines": n, "demuxers": nd, "muxers": nm, "start_offsets_gosched": yields}
		})
	})
}

type yieldingReader struct {
	r     *bytes.Reader
	every int
	n     int
}

func (y *yieldingReader) Read(p []byte) (int, error) {
	y.n++
	if y.n%y.every == 0 {
		runtime.Gosched()
	}
	return y.r.Read(p)
}
