package checks

import (
	"bytes"
	"fmt"
	"testing"

	astits "github.com/asticode/go-astits"
	"pgregory.net/rapid"

	"verifharness/conv"
	"verifharness/gen"
	"verifharness/obs"
	"verifharness/ref"
)

// C13 — PSI/SI tables are decoded field for field; PAT and PMT are encoded exactly.

var kindNames = []string{"PAT", "PMT", "SDT", "NIT", "EIT", "TOT"}

// chunking draws the number of unit bytes per packet. minFirst is the least number of bytes the first packet must
// carry (0 = no constraint).
func chunking(t *rapid.T, total, minFirst int, label string) []int {
	var sizes []int
	left := total
	first := true
	for left > 0 {
		c := 184
		if !gen.Chance(t, 55, label+"_full") {
			c = rapid.IntRange(1, 184).Draw(t, label+"_c")
			if gen.Chance(t, 15, label+"_183") {
				c = 183 // leaves one byte: an adaptation field reduced to its length byte
			}
		}
		if first && c < minFirst {
			c = minFirst
		}
		if c > left {
			c = left
		}
		first = false
		sizes = append(sizes, c)
		left -= c
	}
	return sizes
}

// psiUnitModel is a generated PSI unit with its packets and what the demuxer must deliver for it.
type psiUnitModel struct {
	pid      uint16
	pointer  int
	sections []*ref.Section
	encoded  [][]byte
	payload  []byte // pointer_field .. last section (no trailing stuffing)
	packets  []*ref.TSPacket
}

// buildPSIUnit packetises sections on pid. strict applies the ISO 13818-1 rule that a packet in which a section starts
// carries payload_unit_start_indicator, i.e. every section of a unit (PUSI to next PUSI) starts in its first packet;
// all callers set it (a first packet holding nothing but the pointer_field is not a conformant stream).
func buildPSIUnit(t *rapid.T, pid uint16, cc *uint8, secs []*ref.Section, strict bool, label string, foreign ...[]byte) *psiUnitModel {
	u := &psiUnitModel{pid: pid, sections: secs}
	for i, s := range secs {
		if i == len(secs)-1 {
			// sections of other table types sharing the PID (TDT before TOT, BAT before SDT, ...) come before the last one
			u.encoded = append(u.encoded, foreign...)
		}
		u.encoded = append(u.encoded, s.Encode())
	}
	headLen := 0 // bytes before the last section
	for _, e := range u.encoded[:len(u.encoded)-1] {
		headLen += len(e)
	}
	maxPointer := 20
	if strict && 183-headLen-1 < maxPointer {
		maxPointer = 183 - headLen - 1
	}
	if maxPointer < 0 {
		panic("harness: leading sections do not fit the first packet")
	}
	if gen.Chance(t, 35, label+"_ptr") {
		u.pointer = rapid.IntRange(0, maxPointer).Draw(t, label+"_pointer")
	}
	u.payload = ref.PSIUnit(u.pointer, byte(rapid.SampledFrom([]int{0xff, 0x00, 0x47}).Draw(t, label+"_filler")), u.encoded...)
	minFirst := 0
	if strict {
		minFirst = 1 + u.pointer + headLen + 1
	}
	sizes := chunking(t, len(u.payload), minFirst, label+"_chunks")
	u.packets = ref.PacketizeUnit(pid, u.payload, cc, ref.PktOpts{Sizes: sizes, PadFF: gen.Bool(t, label+"_padff")})
	return u
}

// expectItems returns the data the demuxer must deliver for a unit.
func (u *psiUnitModel) expectItems() []*astits.DemuxerData {
	fp := conv.PacketStruct(u.packets[0], true)
	fp.Payload = nil
	var out []*astits.DemuxerData
	for _, s := range u.sections {
		d := s.Data(u.pid)
		d.FirstPacket = fp
		out = append(out, d)
	}
	return out
}

// smallSections draws n sections of a kind such that all but the last fit, with the pointer field, in one packet.
func sectionsForUnit(t *rapid.T, kind int, label string) []*ref.Section {
	n := 1
	if gen.Chance(t, 35, label+"_multi") {
		n = rapid.IntRange(2, 4).Draw(t, label+"_n")
	}
	var secs []*ref.Section
	used := 0
	for i := 0; i < n-1; i++ {
		// leading sections are small: with the pointer_field they must all fit in the first packet, leaving one byte
		s := gen.Section(t, kind, gen.SectionOpts{MaxBody: rapid.IntRange(0, 40).Draw(t, label+"_leadbody"), MaxItems: 2, MaxDescs: 1}, fmt.Sprintf("%s_s%d", label, i))
		if l := len(s.Encode()); used+l <= 160 {
			secs = append(secs, s)
			used += l
		}
	}
	o := gen.SectionOpts{}
	if gen.Chance(t, 70, label+"_smalllast") {
		o = gen.SectionOpts{MaxBody: rapid.IntRange(0, 400).Draw(t, label+"_maxbody"), MaxItems: 6, MaxDescs: 3}
	}
	return append(secs, gen.Section(t, kind, o, label+"_last"))
}

func TestC13Demux(t *testing.T) {
	rec := obs.NewRecorder("C13", "demux", "rapid: sections of the six table types (all table_id variants, 0..n loop items up to the 1021/4093-byte limits, descriptor loops, fields at min/max/single-bit values, valid BCD times), 1..4 sections per unit, pointer_field 0..20, any packetisation, carried on their standard PIDs (PMT after a PAT): every DemuxerData must equal the reference content field for field (FirstPacket header/adaptation field included) in order, without errors; non-trivial = a loop with >= 2 items or >= 2 sections; distinct by unit payload")
	defer rec.Flush()
	rapid.Check(t, func(t *rapid.T) {
		kind := gen.Uniform(t, 6, "kind")
		secs := sectionsForUnit(t, kind, "u")
		var foreign [][]byte
		if kind >= gen.KindSDT && gen.Chance(t, 35, "foreign") {
			used := 0
			for _, sc := range secs[:len(secs)-1] {
				used += len(sc.Encode())
			}
			for n := 1 + gen.Uniform(t, 2, "nforeign"); n > 0 && used < 120; n-- {
				f := ref.ForeignSection(ref.ForeignTableIDs[gen.Uniform(t, len(ref.ForeignTableIDs), "ftid")], gen.Bool(t, "fsyn"), gen.Bool(t, "fpriv"), gen.Bytes(t, rapid.IntRange(0, 30).Draw(t, "flen"), "fbody"))
				foreign = append(foreign, f)
				used += len(f)
			}
			rec.Class("unit_with_undecoded_table_types(TDT/BAT/ST/...)")
		}
		var pkts []*ref.TSPacket
		var want []*astits.DemuxerData
		pid := gen.StandardPID(kind)
		var ccPAT, cc uint8
		if kind == gen.KindPMT {
			pid = uint16(rapid.IntRange(0x20, 0x1ffe).Draw(t, "pmtpid"))
			pat := &ref.Section{TableID: 0, CurrentNext: true, PAT: &astits.PATData{TransportStreamID: 7, Programs: []*astits.PATProgram{{ProgramNumber: uint16(rapid.IntRange(1, 0xffff).Draw(t, "pn")), ProgramMapID: pid}}}}
			patSecs := []*ref.Section{pat}
			if gen.Chance(t, 40, "patmulti") {
				// the PAT unit has several sections; the one announcing the PMT PID is at a random place among them
				n := rapid.IntRange(1, 2).Draw(t, "patextra")
				at := gen.Uniform(t, n+1, "patat")
				patSecs = nil
				for i := 0; i <= n; i++ {
					if i == at {
						patSecs = append(patSecs, pat)
						continue
					}
					other := pid ^ uint16(1+i)
					if other < 0x20 || other > 0x1ffe {
						other = 0x20 + uint16(i)
					}
					patSecs = append(patSecs, &ref.Section{TableID: 0, CurrentNext: true, Number: uint8(i), Last: uint8(n), PAT: &astits.PATData{TransportStreamID: 7, Programs: []*astits.PATProgram{{ProgramNumber: uint16(0x100 + i), ProgramMapID: other}}}})
				}
				rec.Class(fmt.Sprintf("pmt_pid_announced_by_section_%d_of_a_multi_section_pat", at))
			}
			pu := buildPSIUnit(t, 0, &ccPAT, patSecs, true, "pat")
			pkts = append(pkts, pu.packets...)
			want = append(want, pu.expectItems()...)
		}
		u := buildPSIUnit(t, pid, &cc, secs, true, "unit", foreign...)
		pkts = append(pkts, u.packets...)
		want = append(want, u.expectItems()...)
		// a later unit on another PID: data delivered earlier must still be intact once the demuxer has moved on
		if gen.Chance(t, 60, "trailer") {
			tk := []int{gen.KindSDT, gen.KindNIT, gen.KindEIT, gen.KindTOT}[gen.Uniform(t, 4, "tkind")]
			if tk != kind {
				var tcc uint8
				tu := buildPSIUnit(t, gen.StandardPID(tk), &tcc, []*ref.Section{gen.Section(t, tk, gen.SectionOpts{MaxBody: 600}, "trailer")}, true, "tunit")
				pkts = append(pkts, tu.packets...)
				want = append(want, tu.expectItems()...)
				rec.Class("with_trailer_unit")
			}
		}
		res := demuxAll(ref.EncodeAll(pkts))
		if len(res.errs) > 0 || !res.ended {
			t.Fatalf("%s unit: errors %s (ended=%v)\nunit payload %x", kindNames[kind], errStrings(res.errs), res.ended, u.payload)
		}
		if len(res.items) != len(want) {
			t.Fatalf("%s unit: %d items delivered, want %d\nunit payload %x\nstream %x", kindNames[kind], len(res.items), len(want), u.payload, ref.EncodeAll(pkts))
		}
		// delivery order across PIDs is not part of the property (units pending at end of stream are drained per PID)
		gotBy, wantBy := byPID(res.items), byPID(want)
		for p, ws := range wantBy {
			gs := gotBy[p]
			if len(gs) != len(ws) {
				t.Fatalf("%s unit: PID %#x delivered %d items, want %d\nunit payload %x", kindNames[kind], p, len(gs), len(ws), u.payload)
			}
			for i := range ws {
				if g, w := obs.Canon(gs[i]), obs.Canon(ws[i]); g != w {
					t.Fatalf("%s unit, PID %#x item %d:\n%s\nunit payload %x", kindNames[kind], p, i, obs.Diff(g, w), u.payload)
				}
			}
		}
		items := 0
		last := secs[len(secs)-1]
		switch kind {
		case gen.KindPAT:
			items = len(last.PAT.Programs)
		case gen.KindPMT:
			items = len(last.PMT.ElementaryStreams)
		case gen.KindSDT:
			items = len(last.SDT.Services)
		case gen.KindNIT:
			items = len(last.NIT.TransportStreams)
		case gen.KindEIT:
			items = len(last.EIT.Events)
		case gen.KindTOT:
			items = len(last.TOT.Descriptors)
		}
		rec.Class(kindNames[kind])
		if len(secs) > 1 {
			rec.Class("multi_section_unit")
		}
		if len(u.packets) >= 3 {
			rec.Class("unit>=3_packets")
		}
		if len(u.payload) > 1024 {
			rec.Class("unit>1024_bytes")
		}
		h := obs.NewHasher()
		h.Bytes(u.payload)
		rec.Case(h.Sum(), items >= 2 || len(secs) >= 2, func() interface{} {
			return map[string]interface{}{"table": kindNames[kind], "sections": len(secs), "packets": len(u.packets), "pointer_field": u.pointer, "unit_head": hexHead(u.payload, 64), "loop_items_last_section": items}
		})
	})
}

var tableTypeNames = map[int]string{gen.KindPAT: "PAT", gen.KindPMT: "PMT", gen.KindSDT: "SDT", gen.KindNIT: "NIT", gen.KindEIT: "EIT", gen.KindTOT: "TOT"}

func TestC13Header(t *testing.T) {
	rec := obs.NewRecorder("C13", "header", "rapid: PSI unit payloads (pointer_field, 1..4 sections of any of the six table types, optional 0xFF stuffing) given to parsePSIData: pointer field, and per section table_id/type, section_syntax_indicator, private bit, section_length, table_id_extension, version_number, current_next_indicator, section_number, last_section_number, CRC_32 and the table data must equal the model; non-trivial = version/section numbers not all zero; distinct by payload")
	defer rec.Flush()
	rapid.Check(t, func(t *rapid.T) {
		kind := gen.Uniform(t, 6, "kind")
		secs := sectionsForUnit(t, kind, "u")
		var enc [][]byte
		for _, s := range secs {
			enc = append(enc, s.Encode())
		}
		ptr := 0
		if gen.Bool(t, "hasptr") {
			ptr = rapid.IntRange(0, 40).Draw(t, "ptr")
		}
		payload := ref.PSIUnit(ptr, 0x5a, enc...)
		stuffing := 0
		if gen.Bool(t, "stuff") {
			stuffing = rapid.IntRange(1, 30).Draw(t, "nstuff")
			for i := 0; i < stuffing; i++ {
				payload = append(payload, 0xff)
			}
		}
		got, err := astits.VerifParsePSIData(payload)
		if err != nil {
			t.Fatalf("parsePSIData error %v for %x", err, payload)
		}
		if got.PointerField != ptr {
			t.Fatalf("PointerField %d, want %d", got.PointerField, ptr)
		}
		if len(got.Sections) < len(secs) {
			t.Fatalf("%d sections parsed, want %d: %x", len(got.Sections), len(secs), payload)
		}
		for _, extra := range got.Sections[len(secs):] {
			if extra.Header == nil || extra.Header.TableID != 0xff || extra.Syntax != nil {
				t.Fatalf("unexpected extra section %s for %x", obs.Canon(extra), payload)
			}
		}
		nz := false
		for i, s := range secs {
			e := enc[i]
			want := &astits.PSISection{
				CRC32: uint32(e[len(e)-4])<<24 | uint32(e[len(e)-3])<<16 | uint32(e[len(e)-2])<<8 | uint32(e[len(e)-1]),
				Header: &astits.PSISectionHeader{PrivateBit: s.Private, SectionLength: uint16(len(e) - 3), SectionSyntaxIndicator: s.HasSyntax(),
					TableID: astits.PSITableID(s.TableID), TableType: tableTypeNames[kind]},
				Syntax: &astits.PSISectionSyntax{Data: &astits.PSISectionSyntaxData{PAT: s.PAT, PMT: s.PMT, SDT: s.SDT, NIT: s.NIT, EIT: s.EIT, TOT: s.TOT}},
			}
			if s.HasSyntax() {
				want.Syntax.Header = &astits.PSISectionSyntaxHeader{CurrentNextIndicator: s.CurrentNext, LastSectionNumber: s.Last, SectionNumber: s.Number, TableIDExtension: s.Ext(), VersionNumber: s.Version}
				if s.Version != 0 || s.Number != 0 || s.Last != 0 {
					nz = true
				}
			}
			if g, w := obs.Canon(got.Sections[i]), obs.Canon(want); g != w {
				t.Fatalf("section %d of %x:\n%s", i, payload, obs.Diff(g, w))
			}
		}
		rec.Class(kindNames[kind])
		h := obs.NewHasher()
		h.Bytes(payload)
		rec.Case(h.Sum(), nz, func() interface{} {
			return map[string]interface{}{"table": kindNames[kind], "sections": len(secs), "pointer_field": ptr, "stuffing": stuffing, "payload_head": hexHead(payload, 48)}
		})
	})
}

func TestC13Write(t *testing.T) {
	rec := obs.NewRecorder("C13", "write", "rapid: PAT (0..250 programs) and PMT (0..150 streams, program and ES descriptor loops of all supported descriptor types) contents with any version/section numbers written with writePSIData (pointer_field 0): the bytes must be exactly the reference encoding, CRC included, and the returned count the byte count; non-trivial = >= 2 programs/streams or a descriptor; distinct by section bytes")
	defer rec.Flush()
	rapid.Check(t, func(t *rapid.T) {
		kind := gen.Uniform(t, 2, "kind")
		o := gen.SectionOpts{}
		if gen.Chance(t, 60, "small") {
			o = gen.SectionOpts{MaxBody: rapid.IntRange(0, 300).Draw(t, "maxbody"), MaxItems: 6}
		}
		s := gen.Section(t, kind, o, "s")
		enc := s.Encode()
		sec := &astits.PSISection{
			Header: &astits.PSISectionHeader{PrivateBit: s.Private, SectionLength: uint16(len(enc) - 3), SectionSyntaxIndicator: true, TableID: astits.PSITableID(s.TableID)},
			Syntax: &astits.PSISectionSyntax{
				Header: &astits.PSISectionSyntaxHeader{CurrentNextIndicator: s.CurrentNext, LastSectionNumber: s.Last, SectionNumber: s.Number, TableIDExtension: s.Ext(), VersionNumber: s.Version},
				Data:   &astits.PSISectionSyntaxData{PAT: s.PAT, PMT: s.PMT},
			},
		}
		var out bytes.Buffer
		n, err := astits.VerifWritePSIData(&out, &astits.PSIData{Sections: []*astits.PSISection{sec}})
		want := append([]byte{0}, enc...)
		if err != nil || n != len(want) || !bytes.Equal(out.Bytes(), want) {
			t.Fatalf("writePSIData = %x (n=%d err=%v)\nreference      %x\ncontent %s", out.Bytes(), n, err, want, obs.Trunc(obs.Canon(s), 1500))
		}
		items, descs := 0, 0
		if s.PAT != nil {
			items = len(s.PAT.Programs)
		} else {
			items = len(s.PMT.ElementaryStreams)
			descs = len(s.PMT.ProgramDescriptors)
			for _, es := range s.PMT.ElementaryStreams {
				descs += len(es.ElementaryStreamDescriptors)
			}
		}
		rec.Class(kindNames[kind])
		if descs > 0 {
			rec.Class("with_descriptors")
		}
		h := obs.NewHasher()
		h.Bytes(enc)
		rec.Case(h.Sum(), items >= 2 || descs > 0, func() interface{} {
			return map[string]interface{}{"table": kindNames[kind], "items": items, "descriptors": descs, "section_head": hexHead(enc, 48)}
		})
	})
}
