package checks

import (
	"bytes"
	"fmt"
	"testing"

	astits "github.com/asticode/go-astits"
	"pgregory.net/rapid"

	"verifharness/gen"
	"verifharness/obs"
	"verifharness/ref"
)

// C14 — descriptors decode/encode per spec; declared lengths always match emitted bytes.

func descClasses(rec *obs.Recorder, ds []*astits.Descriptor) {
	for _, d := range ds {
		rec.Class(fmt.Sprintf("tag_%02x", d.Tag))
	}
}

func TestC14Parse(t *testing.T) {
	rec := obs.NewRecorder("C14", "parse", "rapid: descriptor loops of 0..6 descriptors of mixed tags (23 typed tags, unknown tags, user-defined 0x80..0xfe; all flag combinations, numeric fields at 0/max/single bits, variable parts of any length that fits 255 bytes, 0..n items, zero-length descriptors) reference-encoded; parseDescriptors must return exactly these values, each Length == its body length, and stop exactly at the loop end; non-trivial = >= 2 descriptors; distinct by loop bytes")
	defer rec.Flush()
	rapid.Check(t, func(t *rapid.T) {
		ds := gen.Descriptors(t, 6, 1500, "d")
		if gen.Chance(t, 12, "big") {
			ds = gen.BigDescriptors(t, 4095, "big")
			rec.Class("loop>=1000_bytes")
		}
		// VBI data services with a reserved id may carry any number of reserved bytes; the value does not keep them
		ref.VBIReservedBytes = rapid.IntRange(0, 4).Draw(t, "vbireserved")
		total := 0
		for _, d := range ds {
			l := len(ref.DescriptorBody(d))
			total += 2 + l
			if l > 255 {
				total = 1 << 20
			}
		}
		if total > 0xfff {
			ref.VBIReservedBytes = 1 // would not fit: keep the single reserved byte the generator counted with
		}
		for _, d := range ds {
			if d.VBIData != nil {
				d.Length = uint8(len(ref.DescriptorBody(d)))
			}
		}
		enc := ref.EncodeDescriptorLoop(ds)
		if ref.VBIReservedBytes != 1 {
			rec.Class("vbi_reserved_services_with_0_or_2..4_reserved_bytes")
		}
		ref.VBIReservedBytes = 1
		// bytes after the loop must not be touched
		buf := append(append([]byte{}, enc...), 0xde, 0xad, 0xbe, 0xef)
		got, off, err := astits.VerifParseDescriptors(buf)
		if err != nil {
			t.Fatalf("parseDescriptors(%x) error: %v\nmodel %s", enc, err, obs.Canon(ds))
		}
		if off != len(enc) {
			t.Fatalf("parseDescriptors consumed %d bytes, loop is %d bytes: %x", off, len(enc), enc)
		}
		if g, w := obs.Canon(got), obs.Canon(ds); g != w {
			t.Fatalf("parseDescriptors(%x):\n%s", enc, obs.Diff(g, w))
		}
		h := obs.NewHasher()
		h.Bytes(enc)
		rec.Case(h.Sum(), len(ds) >= 2, func() interface{} {
			return map[string]interface{}{"loop": hexHead(enc, 80), "descriptors": len(ds), "values": obs.Trunc(obs.Canon(ds), 500)}
		})
		descClasses(rec, ds)
	})
}

// TestC14Tags gives every typed tag its own budget of cases (single descriptor, full 255-byte budget).
func TestC14Tags(t *testing.T) {
	rec := obs.NewRecorder("C14", "tags", "rapid: for each of the 23 typed tags in turn (plus one unknown and one user-defined tag), a single descriptor with up to 255 body bytes: parse(reference encoding) == value and write(value) == reference encoding; non-trivial = body >= 2 bytes; distinct by descriptor bytes")
	defer rec.Flush()
	tags := append(append([]uint8{}, gen.TypedTags...), 0x13, 0xa0)
	rapid.Check(t, func(t *rapid.T) {
		tag := tags[gen.Uniform(t, len(tags), "tagu")]
		d := gen.DescriptorOfTag(t, tag, 255, "d")
		if d == nil {
			d = &astits.Descriptor{Tag: tag}
		}
		ds := []*astits.Descriptor{d}
		enc := ref.EncodeDescriptorLoop(ds)
		got, off, err := astits.VerifParseDescriptors(enc)
		if err != nil || off != len(enc) {
			t.Fatalf("parseDescriptors(%x): err=%v offset=%d", enc, err, off)
		}
		if g, w := obs.Canon(got), obs.Canon(ds); g != w {
			t.Fatalf("parseDescriptors(%x):\n%s", enc, obs.Diff(g, w))
		}
		var out bytes.Buffer
		n, err := astits.VerifWriteDescriptorsWithLength(&out, ds)
		if err != nil || !bytes.Equal(out.Bytes(), enc) || n != len(enc) {
			t.Fatalf("writeDescriptorsWithLength = %x (n=%d err=%v)\nreference                    %x\nvalue %s", out.Bytes(), n, err, enc, obs.Canon(d))
		}
		h := obs.NewHasher()
		h.Bytes(enc)
		rec.Case(h.Sum(), d.Length >= 2, func() interface{} {
			return map[string]interface{}{"descriptor": hexHead(enc[2:], 64), "value": obs.Trunc(obs.Canon(d), 400)}
		})
		rec.Class(fmt.Sprintf("tag_%02x", tag))
		if d.Length >= 250 {
			rec.Class("body>=250")
		}
	})
}

func TestC14Write(t *testing.T) {
	rec := obs.NewRecorder("C14", "write", "rapid: descriptor loops of mixed tags written with writeDescriptorsWithLength while the redundant Descriptor.Length field is correct, 0 or arbitrary: output == reference encoding; independently a structural walk shows the loop length and every descriptor_length equal to the bytes emitted, the returned count equals the bytes emitted, and calcDescriptorsLength+2 agrees; non-trivial = >= 2 descriptors and at least one Length field not correct; distinct by loop bytes + Length fields")
	defer rec.Flush()
	rapid.Check(t, func(t *rapid.T) {
		ds := gen.Descriptors(t, 6, 1500, "d")
		if gen.Chance(t, 12, "big") {
			ds = gen.BigDescriptors(t, 4095, "big")
			rec.Class("loop>=1000_bytes")
		}
		enc := ref.EncodeDescriptorLoop(ds)
		wrong := 0
		h := obs.NewHasher()
		h.Bytes(enc)
		for i, d := range ds {
			c := *d
			switch gen.Uniform(t, 3, "lenmode") {
			case 1:
				if c.Length != 0 {
					wrong++
				}
				c.Length = 0
			case 2:
				v := uint8(rapid.IntRange(0, 255).Draw(t, "len"))
				if v != c.Length {
					wrong++
				}
				c.Length = v
			}
			h.Int(int64(c.Length))
			ds[i] = &c
		}
		var out bytes.Buffer
		n, err := astits.VerifWriteDescriptorsWithLength(&out, ds)
		if err != nil {
			t.Fatalf("writeDescriptorsWithLength error %v for %s", err, obs.Canon(ds))
		}
		if n != out.Len() {
			t.Fatalf("writeDescriptorsWithLength returned %d, emitted %d bytes", n, out.Len())
		}
		if int(astits.VerifCalcDescriptorsLength(ds))+2 != out.Len() {
			t.Fatalf("calcDescriptorsLength = %d but the loop takes %d bytes: %x", astits.VerifCalcDescriptorsLength(ds), out.Len()-2, out.Bytes())
		}
		tags, _, consumed, werr := ref.WalkDescriptorLoop(out.Bytes())
		if werr != nil || consumed != out.Len() || len(tags) != len(ds) {
			t.Fatalf("structural walk of the output failed (err=%v, consumed %d of %d, %d descriptors of %d): %x\nvalues %s", werr, consumed, out.Len(), len(tags), len(ds), out.Bytes(), obs.Canon(ds))
		}
		if !bytes.Equal(out.Bytes(), enc) {
			t.Fatalf("writeDescriptorsWithLength = %x\nreference                    %x\nvalues %s", out.Bytes(), enc, obs.Canon(ds))
		}
		rec.Case(h.Sum(), len(ds) >= 2 && wrong > 0, func() interface{} {
			return map[string]interface{}{"loop": hexHead(enc, 80), "descriptors": len(ds), "length_fields_not_correct": wrong}
		})
		descClasses(rec, ds)
	})
}

// badDescriptor builds the wire form of a descriptor whose declared length disagrees with the body its tag implies.
// It returns the bytes and a description.
func badDescriptor(t *rapid.T) ([]byte, string) {
	for {
		switch gen.Uniform(t, 4, "badkind") {
		case 0: // unknown tag, arbitrary body
			tag := rapid.SampledFrom(gen.UnknownTags).Draw(t, "utag")
			body := gen.Bytes(t, rapid.IntRange(0, 40).Draw(t, "ulen"), "ubody")
			return append([]byte{tag, byte(len(body))}, body...), fmt.Sprintf("unknown tag %#x", tag)
		case 1: // typed tag, declared length shorter than the body: the body is cut at the declared length
			tag := rapid.SampledFrom(gen.TypedTags).Draw(t, "ttag")
			d := gen.DescriptorOfTag(t, tag, 60, "short")
			if d == nil || d.Length < 2 {
				continue
			}
			body := ref.DescriptorBody(d)
			l := rapid.IntRange(1, len(body)-1).Draw(t, "declared")
			return append([]byte{tag, byte(l)}, body[:l]...), fmt.Sprintf("tag %#x declared %d of %d body bytes", tag, l, len(body))
		case 2: // typed tag, declared length longer than the body: extra bytes follow inside the descriptor
			tag := rapid.SampledFrom(gen.TypedTags).Draw(t, "ttag")
			d := gen.DescriptorOfTag(t, tag, 60, "long")
			if d == nil {
				continue
			}
			body := ref.DescriptorBody(d)
			extra := gen.Bytes(t, rapid.IntRange(1, 20).Draw(t, "extra"), "xbody")
			body = append(body, extra...)
			return append([]byte{tag, byte(len(body))}, body...), fmt.Sprintf("tag %#x with %d extra bytes", tag, len(extra))
		default: // typed tag with a random body
			tag := rapid.SampledFrom(gen.TypedTags).Draw(t, "ttag")
			body := gen.Bytes(t, rapid.IntRange(1, 40).Draw(t, "rlen"), "rbody")
			return append([]byte{tag, byte(len(body))}, body...), fmt.Sprintf("tag %#x random body of %d bytes", tag, len(body))
		}
	}
}

func goodDescriptor(t *rapid.T, label string) *astits.Descriptor {
	for {
		if d := gen.DescriptorOfTag(t, rapid.SampledFrom(gen.TypedTags).Draw(t, label+"_tag"), 30, label); d != nil && d.Length > 0 {
			return d
		}
	}
}

func TestC14NoShift(t *testing.T) {
	rec := obs.NewRecorder("C14", "noshift", "rapid: loops [D_bad, G1, G2] where D_bad has an unknown tag, a declared length shorter or longer than the body its tag implies, or a random body, and G1, G2 are valid typed descriptors: parseDescriptors returns an error, or three descriptors of which the last two are exactly G1, G2 and stops at the loop end (never shifted); also embedded as the first elementary stream's loop of a PMT sent through the Demuxer, where the second stream entry must decode exactly; non-trivial = every case (all have a malformed descriptor followed by two entries); distinct by loop bytes")
	defer rec.Flush()
	rapid.Check(t, func(t *rapid.T) {
		bad, what := badDescriptor(t)
		g1, g2 := goodDescriptor(t, "g1"), goodDescriptor(t, "g2")
		body := append(append(append([]byte{}, bad...), ref.EncodeDescriptor(g1)...), ref.EncodeDescriptor(g2)...)
		loop := append([]byte{0xf0 | byte(len(body)>>8), byte(len(body))}, body...)
		buf := append(append([]byte{}, loop...), 0x11, 0x22, 0x33)
		got, off, err := astits.VerifParseDescriptors(buf)
		outcome := "error"
		if err == nil {
			outcome = "parsed"
			if len(got) != 3 || off != len(loop) {
				t.Fatalf("%s: %d descriptors, offset %d (loop %d bytes): %x", what, len(got), off, len(loop), loop)
			}
			if g, w := obs.Canon(got[1:]), obs.Canon([]*astits.Descriptor{g1, g2}); g != w {
				t.Fatalf("%s: descriptors after the malformed one are shifted/altered: %x\n%s", what, loop, obs.Diff(g, w))
			}
			if int(got[0].Length) != int(bad[1]) || got[0].Tag != bad[0] {
				t.Fatalf("%s: first descriptor reported as tag %#x length %d", what, got[0].Tag, got[0].Length)
			}
		}
		rec.Class("direct_" + outcome)
		// through the Demuxer: PMT whose first stream carries [bad, g1] and whose second stream follows
		es2 := &astits.PMTElementaryStream{StreamType: 0x1b, ElementaryPID: 0x1abc, ElementaryStreamDescriptors: []*astits.Descriptor{g2}}
		w := &ref.BitWriter{}
		w.U(0xe1, 8) // reserved(3) PCR_PID hi
		w.U(0x00, 8)
		w.Bytes([]byte{0xf0, 0x00})
		es1loop := append(append([]byte{}, bad...), ref.EncodeDescriptor(g1)...)
		w.Bytes([]byte{0x0f, 0xe2, 0x00, 0xf0 | byte(len(es1loop)>>8), byte(len(es1loop))})
		w.Bytes(es1loop)
		w.Bytes([]byte{0x1b, 0xe0 | 0x1a, 0xbc})
		w.Bytes(ref.EncodeDescriptorLoop(es2.ElementaryStreamDescriptors))
		pmtBody := w.Out()
		sec := rawSection(0x02, true, false, 0x0001, 3, true, 0, 0, pmtBody)
		pat := (&ref.Section{TableID: 0, CurrentNext: true, PAT: &astits.PATData{TransportStreamID: 1, Programs: []*astits.PATProgram{{ProgramNumber: 1, ProgramMapID: 0x1000}}}}).Encode()
		var c0, c1 uint8
		pkts := ref.PacketizeUnit(0, ref.PSIUnit(0, 0, pat), &c0, ref.PktOpts{PadFF: true})
		pkts = append(pkts, ref.PacketizeUnit(0x1000, ref.PSIUnit(0, 0, sec), &c1, ref.PktOpts{PadFF: true})...)
		res := demuxAll(ref.EncodeAll(pkts))
		var pmt *astits.PMTData
		for _, it := range res.items {
			if it.PMT != nil {
				pmt = it.PMT
			}
		}
		if pmt == nil {
			rec.Class("pmt_rejected")
		} else {
			rec.Class("pmt_delivered")
			if len(pmt.ElementaryStreams) != 2 {
				t.Fatalf("%s: PMT delivered with %d streams, want 2: %s", what, len(pmt.ElementaryStreams), obs.Canon(pmt))
			}
			if g, w := obs.Canon(pmt.ElementaryStreams[1]), obs.Canon(es2); g != w {
				t.Fatalf("%s: stream entry after the malformed loop is shifted/altered:\n%s", what, obs.Diff(g, w))
			}
			d1 := pmt.ElementaryStreams[0].ElementaryStreamDescriptors
			if len(d1) != 2 || obs.Canon(d1[1]) != obs.Canon(g1) {
				t.Fatalf("%s: descriptor after the malformed one is shifted/altered in the PMT: %s\nwant second = %s", what, obs.Canon(d1), obs.Canon(g1))
			}
		}
		h := obs.NewHasher()
		h.Bytes(loop)
		rec.Case(h.Sum(), true, func() interface{} {
			return map[string]interface{}{"malformed": what, "loop": hexHead(loop, 80), "direct_outcome": outcome}
		})
	})
}

// rawSection frames an arbitrary body as a section with a valid CRC.
func rawSection(tableID uint8, syntax, private bool, ext uint16, version uint8, cn bool, num, last uint8, body []byte) []byte {
	n := len(body) + 4
	if syntax {
		n += 5
	}
	w := &ref.BitWriter{}
	w.U(uint64(tableID), 8)
	w.B(syntax)
	w.B(private)
	w.U(3, 2)
	w.U(uint64(n), 12)
	if syntax {
		w.U(uint64(ext), 16)
		w.U(3, 2)
		w.U(uint64(version), 5)
		w.B(cn)
		w.U(uint64(num), 8)
		w.U(uint64(last), 8)
	}
	w.Bytes(body)
	return ref.AppendCRC(w.Out())
}

// c14FuzzOne applies the structural oracles to arbitrary descriptor-loop bytes: parsing never panics; when it succeeds,
// the (tag, length) sequence equals the independent structural walk (every descriptor accounts for exactly its declared
// length, nothing is shifted) and the offset reached is the loop end; re-writing what was parsed yields a loop whose
// lengths match the bytes emitted.
func c14FuzzOne(data []byte) string {
	if len(data) > 4095 {
		data = data[:4095]
	}
	loop := append([]byte{0xf0 | byte(len(data)>>8), byte(len(data))}, data...)
	buf := append(append([]byte{}, loop...), 0xaa, 0xbb)
	ds, off, err := astits.VerifParseDescriptors(buf)
	tags, bodies, _, werr := ref.WalkDescriptorLoop(loop)
	if err != nil {
		return ""
	}
	if werr != nil {
		// the loop is structurally broken (a descriptor_length crosses the loop end: the two declared lengths contradict
		// each other). The property does not say which one wins; only panic-freedom is demanded here.
		return ""
	}
	if off != len(loop) {
		return fmt.Sprintf("parseDescriptors stopped at %d, loop ends at %d: %x", off, len(loop), loop)
	}
	if len(ds) != len(tags) {
		return fmt.Sprintf("%d descriptors parsed, the loop holds %d: %x", len(ds), len(tags), loop)
	}
	for i, d := range ds {
		if d.Tag != tags[i] || int(d.Length) != len(bodies[i]) {
			return fmt.Sprintf("descriptor %d parsed as tag %#x length %d, the loop holds tag %#x length %d (shifted): %x", i, d.Tag, d.Length, tags[i], len(bodies[i]), loop)
		}
	}
	total := 0
	for _, d := range ds {
		l := len(ref.DescriptorBody(d))
		if l > 255 {
			// a malformed body can decode to a value that no descriptor can hold (e.g. a service name running past the
			// declared length): outside the writer's domain
			return ""
		}
		total += 2 + l
	}
	if total > 0xfff {
		// values that were parsed from a loop of up to 4095 bytes can need more than that when written back (fixed-size
		// fields are padded, reserved bytes restored): no 12-bit loop length can announce them, outside the writer's domain
		return ""
	}
	var out bytes.Buffer
	n, err := astits.VerifWriteDescriptorsWithLength(&out, ds)
	if err != nil {
		return ""
	}
	if n != out.Len() {
		return fmt.Sprintf("writeDescriptorsWithLength returned %d for %d bytes (parsed from %x)", n, out.Len(), loop)
	}
	if _, _, consumed, werr := ref.WalkDescriptorLoop(out.Bytes()); werr != nil || consumed != out.Len() {
		return fmt.Sprintf("re-written loop is not well formed (%v, %d of %d): %x (parsed from %x)", werr, consumed, out.Len(), out.Bytes(), loop)
	}
	return ""
}

func FuzzC14(f *testing.F) {
	f.Add([]byte{})
	f.Add([]byte{0x0a, 0x04, 'e', 'n', 'g', 0x00})
	f.Add([]byte{0x45, 0x05, 0x01, 0x03, 0xc1, 0xc2, 0xc3, 0x52, 0x01, 0x07})
	f.Add([]byte{0x4e, 0x0c, 0x10, 'f', 'r', 'a', 0x04, 0x01, 'a', 0x01, 'b', 0x02, 'x', 'y'})
	f.Add([]byte{0x7f, 0x06, 0x06, 0x85, 'e', 'n', 'g', 0x11, 0x58, 0x0d, 'F', 'R', 'A', 0x0b, 0x01, 0x00, 0xc0, 0x79, 0x12, 0x45, 0x00, 0x02, 0x00})
	f.Add([]byte{0x28, 0x02, 0x64, 0xe0, 0x59, 0x04, 'a', 'b', 'c', 0x10})
	f.Fuzz(func(t *testing.T, data []byte) {
		if v := c14FuzzOne(data); v != "" {
			t.Fatal(v)
		}
	})
}

func TestC14RandomBytes(t *testing.T) {
	rec := obs.NewRecorder("C14", "random_loops", "rapid: arbitrary bytes and mutated valid loops as descriptor loop bodies: parseDescriptors must not panic; when it succeeds on a structurally sound loop the (tag, length) sequence equals the independent structural walk and the offset is the loop end; re-writing the parsed values gives a well-formed loop; non-trivial = parse succeeded with >= 2 descriptors; distinct by loop bytes")
	defer rec.Flush()
	rapid.Check(t, func(t *rapid.T) {
		var data []byte
		if gen.Bool(t, "mutated") {
			data = ref.EncodeDescriptors(gen.Descriptors(t, 5, 600, "d"))
			for i := rapid.IntRange(0, 5).Draw(t, "nmut"); i > 0 && len(data) > 0; i-- {
				data[rapid.IntRange(0, len(data)-1).Draw(t, "pos")] = rapid.Byte().Draw(t, "val")
			}
		} else {
			data = gen.Bytes(t, rapid.IntRange(0, 300).Draw(t, "n"), "raw")
		}
		if v := c14FuzzOne(data); v != "" {
			t.Fatal(v)
		}
		loop := append([]byte{0xf0 | byte(len(data)>>8), byte(len(data))}, data...)
		ds, _, err := astits.VerifParseDescriptors(loop)
		h := obs.NewHasher()
		h.Bytes(data)
		rec.Case(h.Sum(), err == nil && len(ds) >= 2, func() interface{} {
			return map[string]interface{}{"loop": hexHead(loop, 64), "descriptors": len(ds)}
		})
	})
}
