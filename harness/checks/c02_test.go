package checks

import (
	"bytes"
	"context"
	"fmt"
	"io"
	"testing"

	astits "github.com/asticode/go-astits"
	"pgregory.net/rapid"

	"verifharness/gen"
	"verifharness/obs"
	"verifharness/ref"
)

// C02 — the Demuxer delivers exactly the units a stream carries, whatever the packetisation.

// countingReader is a plain (non seekable) reader that counts the bytes handed out.
type countingReader struct {
	r io.Reader
	n int
}

func (c *countingReader) Read(p []byte) (int, error) {
	n, err := c.r.Read(p)
	c.n += n
	return n, err
}

// c02Run demuxes a stream model and checks delivery and consumption; it returns a violation text or "".
func c02Run(m *streamModel) string {
	stream := m.bytes()
	cr := &countingReader{r: bytes.NewReader(stream)}
	d := astits.NewDemuxer(context.Background(), cr, astits.DemuxerOptPacketSize(188))
	want := m.expectPerPID()
	// position of the last packet of every PAT/PMT unit
	lastIdx := map[*unitModel]int{}
	for i, sp := range m.packets {
		if sp.unit != nil {
			lastIdx[sp.unit] = i
		}
	}
	unitOfItem := map[uint16][]*unitModel{} // per PID, per expected item: its unit
	firstOfUnit := map[uint16][]bool{}
	for _, pid := range m.pids {
		for _, u := range m.perPID[pid] {
			for k := range u.expect {
				unitOfItem[pid] = append(unitOfItem[pid], u)
				firstOfUnit[pid] = append(firstOfUnit[pid], k == 0)
			}
		}
	}
	seen := map[uint16]int{}
	var got []*astits.DemuxerData
	prevConsumed := 0
	for calls := 0; ; calls++ {
		if calls > len(m.packets)+len(m.units)*4+16 {
			return "NextData does not reach ErrNoMorePackets"
		}
		it, err := d.NextData()
		if err == astits.ErrNoMorePackets {
			break
		}
		if err != nil {
			return fmt.Sprintf("NextData error on a well-formed stream: %v", err)
		}
		got = append(got, it)
		k := seen[it.PID]
		seen[it.PID]++
		if (it.PID == 0 || m.pmtPIDs[it.PID]) && k < len(unitOfItem[it.PID]) {
			u := unitOfItem[it.PID][k]
			if firstOfUnit[it.PID][k] {
				if wantN := 188 * (lastIdx[u] + 1); cr.n != wantN {
					return fmt.Sprintf("PID %#x: the call returning the first section of unit ending at packet %d had consumed %d bytes, want exactly %d (it must return with the unit's final packet)", it.PID, lastIdx[u], cr.n, wantN)
				}
			} else if cr.n != prevConsumed {
				return fmt.Sprintf("PID %#x: returning a buffered section consumed %d more bytes", it.PID, cr.n-prevConsumed)
			}
		}
		prevConsumed = cr.n
	}
	if cr.n != len(stream) {
		return fmt.Sprintf("%d of %d bytes consumed at ErrNoMorePackets", cr.n, len(stream))
	}
	return comparePerPID(got, want)
}

func streamClasses(rec *obs.Recorder, m *streamModel) (multiPkt3, multiSection, pids3 bool) {
	for _, u := range m.units {
		if len(u.packets) >= 3 {
			multiPkt3 = true
		}
		if len(u.sections) >= 2 {
			multiSection = true
		}
		if u.kind == unitPES && u.pes.Length == 0 {
			rec.Class("pes_unbounded_length")
		}
		if len(u.packets[0].Payload) == 1 || (u.packets[0].HasAF && len(u.packets[0].Payload) <= 2) {
			rec.Class("first_chunk<=2_bytes")
		}
		if l := u.packets[len(u.packets)-1]; len(u.packets) > 1 && len(l.Payload) == 1 {
			rec.Class("last_chunk_1_byte")
		}
	}
	pids3 = len(m.pids) >= 3
	if multiPkt3 {
		rec.Class("unit>=3_packets")
	}
	if multiSection {
		rec.Class("multi_section_unit")
	}
	if pids3 {
		rec.Class(">=3_pids")
	}
	if len(m.pmtPIDs) > 0 {
		rec.Class("with_pmt_pid")
	}
	return
}

func TestC02Streams(t *testing.T) {
	rec := obs.NewRecorder("C02", "streams", "rapid: stream models from the reference multiplexer: 1..8 PIDs (PES PIDs, PAT, PMT PIDs listed by the PAT, NIT/SDT/EIT/TOT on their PIDs), 1..4 units per PID, PES with exact and zero PES_packet_length and 0..1200 payload bytes, PSI units of 1..3 sections over 1..6 packets with pointer_field 0..20, every packet's share drawn freely (1-byte first/last chunks, stuffing in any packet), 0xFF padding or exact fit, optional adaptation fields, order-preserving random interleaving with bursts, null/CAT/adaptation-only packets sprinkled in; oracle: per PID the delivered sequence equals the model (PES payload and header, every table section once, FirstPacket), no error, everything delivered before ErrNoMorePackets, all bytes consumed; a PAT/PMT unit's first section is returned by the call that has consumed exactly up to the unit's final packet and further sections cost no read; non-trivial = a unit over >= 3 packets, a multi-section unit and >= 3 PIDs; distinct by stream bytes")
	defer rec.Flush()
	rapid.Check(t, func(t *rapid.T) {
		so := defaultStreamOpts()
		so.relaxedSI = true
		m := drawStream(t, so)
		if v := c02Run(m); v != "" {
			t.Fatalf("%s\nstream: %s\norder: %s", v, m.describe(), m.order())
		}
		a, b, c := streamClasses(rec, m)
		h := obs.NewHasher()
		h.Bytes(m.bytes())
		rec.Case(h.Sum(), a && b && c, func() interface{} {
			return map[string]interface{}{"stream": m.describe(), "packet_order": m.order()}
		})
	})
}

// TestC02Splits moves one split point through every position of one unit of each kind.
func TestC02Splits(t *testing.T) {
	rec := obs.NewRecorder("C02", "splits", "deterministic sweep: for a PES unit (bounded and unbounded length) and for PAT, PMT (2 sections), SDT and SDT (2 sections + a foreign section, cuts from the pointer_field alone, at section ends) units, every position of a single split point (two packets: k bytes + rest, k = 1..len-1 within the stream preconditions) and every uniform chunk size 1..184, followed by a second unit on the same PID; distinct by construction")
	defer rec.Flush()
	pts := uint64(0x1ffffffff)
	payload := make([]byte, 230)
	for i := range payload {
		payload[i] = byte(i * 3)
	}
	total := int64(0)
	run := func(name string, pid uint16, unit []byte, minFirst int, prefix []*ref.TSPacket, padFF bool, check func(items []*astits.DemuxerData) string) {
		try := func(sizes []int, what string) {
			cc := uint8(5)
			pk := append(append([]*ref.TSPacket{}, prefix...), ref.PacketizeUnit(pid, unit, &cc, ref.PktOpts{Sizes: sizes, PadFF: padFF})...)
			// a following unit on the same PID (forces the flush of PES units before EOF)
			pk = append(pk, ref.PacketizeUnit(pid, unit, &cc, ref.PktOpts{PadFF: padFF})...)
			res := demuxAll(ref.EncodeAll(pk))
			if len(res.errs) > 0 || !res.ended {
				t.Fatalf("%s %s: errors %s", name, what, errStrings(res.errs))
			}
			var mine []*astits.DemuxerData
			for _, it := range res.items {
				if it.PID == pid {
					mine = append(mine, it)
				}
			}
			if v := check(mine); v != "" {
				t.Fatalf("%s %s: %s", name, what, v)
			}
			total++
		}
		for k := minFirst; k < len(unit) && k <= 184; k++ {
			rest := len(unit) - k
			sizes := []int{k}
			for rest > 0 {
				c := min(rest, 184)
				sizes = append(sizes, c)
				rest -= c
			}
			try(sizes, fmt.Sprintf("first packet carries %d bytes", k))
		}
		for c := 1; c <= 184; c++ {
			if c < minFirst {
				continue
			}
			var sizes []int
			for rest := len(unit); rest > 0; rest -= min(rest, c) {
				sizes = append(sizes, min(rest, c))
			}
			try(sizes, fmt.Sprintf("uniform chunks of %d bytes", c))
		}
		// last chunk of every size
		for l := 1; l <= 184 && l < len(unit); l++ {
			head := len(unit) - l
			if head < minFirst {
				continue
			}
			var sizes []int
			first := min(head, 184)
			if first < minFirst {
				continue
			}
			sizes = append(sizes, first)
			for rest := head - first; rest > 0; rest -= min(rest, 184) {
				sizes = append(sizes, min(rest, 184))
			}
			sizes = append(sizes, l)
			try(sizes, fmt.Sprintf("last packet carries %d bytes", l))
		}
	}
	for _, length := range []int{-1, 0} {
		p := &ref.PES{StreamID: 0xe0, Length: length, Opt: &ref.PESOpt{PTS: &pts}, Payload: payload}
		enc := p.Encode()
		run(fmt.Sprintf("PES(length mode %d)", length), 0x101, enc, 1, nil, false, func(items []*astits.DemuxerData) string {
			if len(items) != 2 {
				return fmt.Sprintf("%d items, want 2", len(items))
			}
			for i, it := range items {
				if it.PES == nil || !bytes.Equal(it.PES.Data, payload) || it.PES.Header.OptionalHeader == nil || it.PES.Header.OptionalHeader.PTS == nil || it.PES.Header.OptionalHeader.PTS.Base != int64(pts) {
					return fmt.Sprintf("item %d differs: %s", i, obs.Trunc(obs.Canon(it.PES), 300))
				}
			}
			return ""
		})
	}
	mkPAT := func(n int) *ref.Section {
		d := &astits.PATData{TransportStreamID: 9}
		for i := 0; i < n; i++ {
			d.Programs = append(d.Programs, &astits.PATProgram{ProgramNumber: uint16(i + 1), ProgramMapID: uint16(0x200 + i)})
		}
		return &ref.Section{TableID: 0, CurrentNext: true, PAT: d}
	}
	pat := mkPAT(60)
	run("PAT", 0, ref.PSIUnit(0, 0, pat.Encode()), 2, nil, true, func(items []*astits.DemuxerData) string {
		if len(items) != 2 {
			return fmt.Sprintf("%d items, want 2", len(items))
		}
		for i, it := range items {
			if obs.Canon(it.PAT) != obs.Canon(pat.PAT) {
				return fmt.Sprintf("item %d differs", i)
			}
		}
		return ""
	})
	// PMT unit with two sections: a small one and a long one, after a PAT
	small := &ref.Section{TableID: 2, CurrentNext: true, PMT: &astits.PMTData{ProgramNumber: 1, PCRPID: 0x100}}
	long := &ref.Section{TableID: 2, CurrentNext: true, Number: 1, Last: 1, PMT: &astits.PMTData{ProgramNumber: 1, PCRPID: 0x100}}
	for i := 0; i < 50; i++ {
		long.PMT.ElementaryStreams = append(long.PMT.ElementaryStreams, &astits.PMTElementaryStream{ElementaryPID: uint16(0x100 + i), StreamType: astits.StreamTypeH264Video})
	}
	var c0 uint8
	patPk := ref.PacketizeUnit(0, ref.PSIUnit(0, 0, (&ref.Section{TableID: 0, CurrentNext: true, PAT: &astits.PATData{Programs: []*astits.PATProgram{{ProgramNumber: 1, ProgramMapID: 0x1000}}}}).Encode()), &c0, ref.PktOpts{PadFF: true})
	se := small.Encode()
	run("PMT(2 sections)", 0x1000, ref.PSIUnit(3, 0, se, long.Encode()), 1+3+len(se)+1, patPk, true, func(items []*astits.DemuxerData) string {
		if len(items) != 4 {
			return fmt.Sprintf("%d items, want 4", len(items))
		}
		for i, it := range items {
			w := small.PMT
			if i%2 == 1 {
				w = long.PMT
			}
			if obs.Canon(it.PMT) != obs.Canon(w) {
				return fmt.Sprintf("item %d differs", i)
			}
		}
		return ""
	})
	sdt := &ref.Section{TableID: 0x42, CurrentNext: true, Private: true, SDT: &astits.SDTData{TransportStreamID: 3, OriginalNetworkID: 4}}
	for i := 0; i < 30; i++ {
		sdt.SDT.Services = append(sdt.SDT.Services, &astits.SDTDataService{ServiceID: uint16(i), RunningStatus: 4, Descriptors: []*astits.Descriptor{{Tag: 0x48, Length: 7, Service: &astits.DescriptorService{Type: 1, Provider: []byte("pr"), Name: []byte("nm")}}}})
	}
	run("SDT", 0x11, ref.PSIUnit(0, 0, sdt.Encode()), 2, nil, false, func(items []*astits.DemuxerData) string {
		if len(items) != 2 {
			return fmt.Sprintf("%d items, want 2", len(items))
		}
		for i, it := range items {
			if obs.Canon(it.SDT) != obs.Canon(sdt.SDT) {
				return fmt.Sprintf("item %d differs", i)
			}
		}
		return ""
	})
	// two SDT sections and a foreign (BAT) section between them, every cut from "pointer_field alone": units on the SI
	// PIDs are delimited by payload_unit_start_indicator only, so cuts at section ends must not lose the rest
	sdtA := &ref.Section{TableID: 0x42, CurrentNext: true, Private: true, SDT: &astits.SDTData{TransportStreamID: 7, OriginalNetworkID: 8, Services: sdt.SDT.Services[:3]}}
	sdtB := &ref.Section{TableID: 0x46, CurrentNext: true, Private: true, SDT: &astits.SDTData{TransportStreamID: 9, OriginalNetworkID: 10, Services: sdt.SDT.Services[:14]}}
	run("SDT(2 sections + BAT)", 0x11, ref.PSIUnit(2, 0xff, sdtA.Encode(), ref.ForeignSection(0x4a, true, true, []byte{1, 2, 3, 4, 5, 6, 7}), sdtB.Encode()), 1, nil, false, func(items []*astits.DemuxerData) string {
		if len(items) != 4 {
			return fmt.Sprintf("%d items, want 4", len(items))
		}
		for i, it := range items {
			w := sdtA.SDT
			if i%2 == 1 {
				w = sdtB.SDT
			}
			if obs.Canon(it.SDT) != obs.Canon(w) {
				return fmt.Sprintf("item %d differs", i)
			}
		}
		return ""
	})
	rec.Enumerated(total)
	rec.SetExhaustive(true)
	rec.Sample(map[string]interface{}{"units": "PES(230B payload, bounded+unbounded), PAT(60 programs), PMT(2 sections), SDT(30 services), SDT(2 sections + foreign section, cuts from 1 byte)", "packetisations": total})
	_ = gen.KindPAT
}
