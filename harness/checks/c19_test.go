package checks

import (
	"bytes"
	"context"
	"fmt"
	"testing"

	astits "github.com/asticode/go-astits"
	"pgregory.net/rapid"

	"verifharness/conv"
	"verifharness/gen"
	"verifharness/obs"
	"verifharness/ref"
)

// C19 — PacketSkipper equals deleting packets; PacketsParser sees each unit exactly once.

type skipPred struct {
	name string
	f    func(idx int, p *astits.Packet) bool
}

func drawPredicate(t *rapid.T, m *streamModel) skipPred {
	switch gen.Uniform(t, 9, "pred") {
	case 0:
		set := map[uint16]bool{}
		for _, pid := range m.pids {
			if gen.Bool(t, "inset") {
				set[pid] = true
			}
		}
		return skipPred{"PID in a drawn set", func(_ int, p *astits.Packet) bool { return set[p.Header.PID] }}
	case 1:
		par := uint8(gen.Uniform(t, 2, "parity"))
		return skipPred{fmt.Sprintf("continuity_counter %% 2 == %d", par), func(_ int, p *astits.Packet) bool { return p.Header.ContinuityCounter%2 == par }}
	case 2:
		want := gen.Bool(t, "pusi")
		return skipPred{fmt.Sprintf("payload_unit_start_indicator == %v", want), func(_ int, p *astits.Packet) bool { return p.Header.PayloadUnitStartIndicator == want }}
	case 3:
		return skipPred{"has adaptation field with PCR or random access indicator", func(_ int, p *astits.Packet) bool {
			return p.AdaptationField != nil && (p.AdaptationField.HasPCR || p.AdaptationField.RandomAccessIndicator)
		}}
	case 4:
		bits := rapid.SliceOfN(rapid.Bool(), len(m.packets), len(m.packets)).Draw(t, "bits")
		return skipPred{"random per-packet decisions", func(i int, _ *astits.Packet) bool { return i < len(bits) && bits[i] }}
	case 5:
		return skipPred{"skip all", func(int, *astits.Packet) bool { return true }}
	case 6:
		return skipPred{"skip none", func(int, *astits.Packet) bool { return false }}
	case 7:
		return skipPred{"adaptation field reduced to its length byte", func(_ int, p *astits.Packet) bool {
			return p.AdaptationField != nil && p.AdaptationField.IsOneByteStuffing
		}}
	default:
		return skipPred{"no payload or adaptation field stuffing > 50", func(_ int, p *astits.Packet) bool {
			return !p.Header.HasPayload || (p.AdaptationField != nil && p.AdaptationField.StuffingLength > 50)
		}}
	}
}

func packetsAndData(b []byte, opts ...func(*astits.Demuxer)) (pk []string, data []string, errs []string) {
	o := append([]func(*astits.Demuxer){astits.DemuxerOptPacketSize(188)}, opts...)
	d := astits.NewDemuxer(context.Background(), bytes.NewReader(b), o...)
	for i := 0; i < len(b)/188+8; i++ {
		p, err := d.NextPacket()
		if err == astits.ErrNoMorePackets {
			break
		}
		if err != nil {
			errs = append(errs, err.Error())
			continue
		}
		pk = append(pk, obs.Canon(p))
	}
	res := demuxAll(b, opts...)
	for _, e := range res.errs {
		errs = append(errs, e.Error())
	}
	for _, it := range res.items {
		data = append(data, obs.Canon(it))
	}
	return
}

func TestC19Skipper(t *testing.T) {
	rec := obs.NewRecorder("C19", "skipper", "rapid: well-formed streams (with null/CAT/adaptation-only packets) x predicates {PID set, continuity counter parity, PUSI, adaptation field flags, random per-packet decisions, skip all, skip none, no-payload/stuffing, one-byte adaptation field}; oracle: NextPacket and NextData sequences (and errors) with the skipper equal those of the stream from which the selected packets were deleted; the predicate is called once per packet in stream order with header and adaptation field equal to the reference decode of that packet (for both NextPacket and NextData); no packet for which it returned true is ever returned; non-trivial = predicate selects some but not all packets; distinct by stream bytes + predicate decisions")
	defer rec.Flush()
	rapid.Check(t, func(t *rapid.T) {
		o := defaultStreamOpts()
		o.smallPSI, o.maxPESLen = true, 900
		m := drawStream(t, o)
		pred := drawPredicate(t, m)
		stream := m.bytes()
		// the reference decision per packet, from the model
		var filtered []byte
		var decisions []bool
		nskip := 0
		for i, sp := range m.packets {
			s := pred.f(i, conv.PacketStruct(sp.p, true))
			decisions = append(decisions, s)
			if s {
				nskip++
			} else {
				filtered = append(filtered, sp.raw...)
			}
		}
		for _, api := range []string{"NextPacket", "NextData"} {
			idx := 0
			var log []string
			skippedCanon := map[string]bool{}
			skipper := astits.DemuxerOptPacketSkipper(func(p *astits.Packet) bool {
				c := *p
				c.Payload = nil
				log = append(log, obs.Canon(&c))
				s := pred.f(idx, p)
				idx++
				return s
			})
			d := astits.NewDemuxer(context.Background(), bytes.NewReader(stream), astits.DemuxerOptPacketSize(188), skipper)
			var got []string
			for i := 0; i < len(m.packets)+len(m.units)*4+16; i++ {
				var err error
				var c string
				if api == "NextPacket" {
					var p *astits.Packet
					p, err = d.NextPacket()
					if p != nil {
						c = obs.Canon(p)
					}
				} else {
					var x *astits.DemuxerData
					x, err = d.NextData()
					if x != nil {
						c = obs.Canon(x)
					}
				}
				if err == astits.ErrNoMorePackets {
					break
				}
				if err != nil {
					got = append(got, "ERR "+err.Error())
					continue
				}
				got = append(got, c)
			}
			if api == "NextPacket" {
				// the skipper stays in force after a Rewind (packet level: independent of what the program map has learnt)
				if n, err := d.Rewind(); n != 0 || err != nil {
					t.Fatalf("Rewind returned (%d, %v)", n, err)
				}
				idx = 0
				firstLog := log
				log = nil
				var again []string
				for i := 0; i < len(m.packets)+16; i++ {
					p, err := d.NextPacket()
					if err == astits.ErrNoMorePackets {
						break
					}
					if err != nil {
						again = append(again, "ERR "+err.Error())
						continue
					}
					again = append(again, obs.Canon(p))
				}
				if !equalStrings(again, got) || !equalStrings(log, firstLog) {
					t.Fatalf("NextPacket with skipper %q after Rewind: %d packets returned (%d before the rewind), predicate consulted %d times (%d before)\nstream: %s", pred.name, len(again), len(got), len(log), len(firstLog), m.describe())
				}
			}
			// same API on the pre-filtered stream
			d2 := astits.NewDemuxer(context.Background(), bytes.NewReader(filtered), astits.DemuxerOptPacketSize(188))
			var want []string
			for i := 0; i < len(m.packets)+len(m.units)*4+16; i++ {
				var err error
				var c string
				if api == "NextPacket" {
					var p *astits.Packet
					p, err = d2.NextPacket()
					if p != nil {
						c = obs.Canon(p)
					}
				} else {
					var x *astits.DemuxerData
					x, err = d2.NextData()
					if x != nil {
						c = obs.Canon(x)
					}
				}
				if err == astits.ErrNoMorePackets {
					break
				}
				if err != nil {
					want = append(want, "ERR "+err.Error())
					continue
				}
				want = append(want, c)
			}
			if !equalStrings(got, want) {
				t.Fatalf("%s with skipper %q: %d results, %d on the stream without the selected packets%s\nstream: %s", api, pred.name, len(got), len(want), firstDiff(got, want), m.describe())
			}
			// the call log: once per packet, in order, fully parsed header and adaptation field
			if len(log) != len(m.packets) {
				t.Fatalf("%s with skipper %q: predicate consulted %d times for %d packets\nstream: %s", api, pred.name, len(log), len(m.packets), m.describe())
			}
			for i, sp := range m.packets {
				w := conv.PacketStruct(sp.p, true)
				w.Payload = nil
				if ws := obs.Canon(w); log[i] != ws {
					t.Fatalf("%s with skipper %q: call %d saw a packet that is not packet %d of the stream:\n%s", api, pred.name, i, i, obs.Diff(log[i], ws))
				}
				if decisions[i] && api == "NextPacket" {
					skippedCanon[obs.Canon(conv.PacketStruct(sp.p, true), "IsOneByteStuffing")] = true
				}
			}
			_ = skippedCanon
		}
		rec.Class("predicate: " + pred.name[:min(len(pred.name), 24)])
		h := obs.NewHasher()
		h.Bytes(stream)
		for _, d := range decisions {
			if d {
				h.Int(1)
			} else {
				h.Int(0)
			}
		}
		rec.Case(h.Sum(), nskip > 0 && nskip < len(m.packets), func() interface{} {
			return map[string]interface{}{"stream": m.describe(), "predicate": pred.name, "skipped": nskip, "packets": len(m.packets)}
		})
	})
}

func TestC19Parser(t *testing.T) {
	rec := obs.NewRecorder("C19", "parser", "rapid: well-formed streams x PacketsParser kinds {observer (skip=false; half of them also return data of their own for chosen units, which must not show), replacer (skip=true with own data for chosen units; half of them refill one result slice they keep, some answer every unit with one constant slice), failing on chosen units}; oracle: observer leaves the NextData output identical to the run without parser; every group handed over is non-empty and single-PID, and per PID the concatenation of the groups is exactly that PID's payload-carrying packets in arrival order, each once (end-of-stream drain included); replacer: the output is exactly the returned data in order for replaced units and the default data for the others; failing parser: every unit is still handed over exactly once; non-trivial = >= 2 PIDs and a unit over >= 2 packets; distinct by stream bytes + parser kind")
	defer rec.Flush()
	rapid.Check(t, func(t *rapid.T) {
		o := defaultStreamOpts()
		o.smallPSI, o.maxPESLen, o.noise = true, 900, false
		m := drawStream(t, o)
		if nn := gen.Uniform(t, 4, "nullpackets"); nn > 0 {
			// null packets with a payload of their own (never two alike, continuity counter running): the parser is handed
			// the units of every PID, this one included
			for i := 0; i < nn; i++ {
				np := &streamPacket{p: &ref.TSPacket{PID: 0x1fff, HasPayload: true}}
				at := rapid.IntRange(0, len(m.packets)).Draw(t, "nullat")
				m.packets = append(m.packets[:at:at], append([]*streamPacket{np}, m.packets[at:]...)...)
			}
			k := 0
			for _, sp := range m.packets {
				if sp.unit == nil && sp.p.PID == 0x1fff && sp.raw == nil {
					sp.p.CC, sp.p.Payload = uint8(k), bytes.Repeat([]byte{byte(0xa0 + k)}, 184)
					sp.raw = sp.p.MustEncode()
					k++
				}
			}
		}
		stream := m.bytes()
		base := demuxAll(stream)
		if len(base.errs) > 0 {
			t.Fatalf("errors without parser: %s", errStrings(base.errs))
		}
		var baseCanon []string
		for _, it := range base.items {
			baseCanon = append(baseCanon, obs.Canon(it))
		}
		// expected payload packets per PID
		wantPerPID := map[uint16][]string{}
		for _, sp := range m.packets {
			if sp.p.HasPayload && !sp.p.TEI {
				wantPerPID[sp.p.PID] = append(wantPerPID[sp.p.PID], obs.Canon(conv.PacketStruct(sp.p, true), "IsOneByteStuffing"))
			}
		}
		kind := gen.Uniform(t, 3, "parserkind")
		noisy := gen.Bool(t, "noisyobserver")
		reuseSlice := gen.Bool(t, "reuseslice")
		shared := make([]*astits.DemuxerData, 0, 4)
		constSlice := !reuseSlice && gen.Chance(t, 30, "constslice")
		var constant []*astits.DemuxerData
		var constantCanon []string
		for i := 0; i < 3; i++ {
			x := &astits.DemuxerData{PID: 0x1c00, FirstPacket: &astits.Packet{Header: astits.PacketHeader{PID: uint16(0x1c00 + i)}}}
			constant = append(constant, x)
			constantCanon = append(constantCanon, obs.Canon(x))
		}
		junk := map[*astits.DemuxerData]int{}
		sel := rapid.SliceOfN(rapid.Bool(), 64, 64).Draw(t, "select")
		seenPerPID := map[uint16][]string{}
		ngroups := 0
		var groupErr string
		var expectOut []string
		parser := func(ps []*astits.Packet) ([]*astits.DemuxerData, bool, error) {
			g := ngroups
			ngroups++
			if len(ps) == 0 {
				groupErr = "empty group handed to the parser"
				return nil, false, nil
			}
			for _, p := range ps {
				if p.Header.PID != ps[0].Header.PID {
					groupErr = fmt.Sprintf("group mixes PIDs %#x and %#x", ps[0].Header.PID, p.Header.PID)
				}
				seenPerPID[p.Header.PID] = append(seenPerPID[p.Header.PID], obs.Canon(p, "IsOneByteStuffing"))
			}
			switch kind {
			case 0:
				// a talkative observer: it returns data of its own together with skip=false; the default output must not change
				if noisy && sel[g%64] {
					var ds []*astits.DemuxerData
					for i := 0; i <= g%2; i++ {
						x := &astits.DemuxerData{PID: ps[0].Header.PID ^ 0x1555, FirstPacket: &astits.Packet{Header: astits.PacketHeader{ContinuityCounter: uint8(g % 16), PID: uint16(0x1a00 + i)}}}
						junk[x] = g
						ds = append(ds, x)
					}
					return ds, false, nil
				}
			case 1:
				// the PAT is never replaced: the demuxer learns the PMT PIDs from the PAT data that passes through it
				if sel[g%64] && ps[0].Header.PID != 0 {
					if constSlice {
						// a parser that answers every unit it takes with one and the same result slice
						return constant, true, nil
					}
					n := 1 + g%3
					var ds []*astits.DemuxerData
					if reuseSlice {
						// a parser that keeps one result slice and refills it for every unit it answers
						ds = shared[:0]
					}
					for i := 0; i < n; i++ {
						ds = append(ds, &astits.DemuxerData{PID: ps[0].Header.PID, FirstPacket: &astits.Packet{Header: astits.PacketHeader{ContinuityCounter: uint8(g % 16), PID: uint16(i)}}})
					}
					if g%5 == 4 {
						ds = nil // a parser may swallow a unit
					} else if reuseSlice {
						shared = ds
					}
					return ds, true, nil
				}
			case 2:
				// never on the PAT: refusing it makes the PMT PIDs unknown until a later PAT, i.e. a stream whose PIDs change role
				if sel[g%64] && ps[0].Header.PID != 0 {
					return nil, false, fmt.Errorf("parser refuses group %d", g)
				}
			}
			return nil, false, nil
		}
		res := demuxAll(stream, astits.DemuxerOptPacketsParser(parser))
		if groupErr != "" {
			t.Fatalf("%s\nstream: %s", groupErr, m.describe())
		}
		for pid, want := range wantPerPID {
			if !equalStrings(seenPerPID[pid], want) {
				t.Fatalf("PID %#x: the parser saw %d packets, the PID carries %d payload packets%s\nstream: %s\norder: %s\nerrors: %s", pid, len(seenPerPID[pid]), len(want), firstDiff(seenPerPID[pid], want), m.describe(), m.order(), errStrings(res.errs))
			}
		}
		for pid := range seenPerPID {
			if _, ok := wantPerPID[pid]; !ok {
				t.Fatalf("parser saw packets of PID %#x which carries no payload packet", pid)
			}
		}
		var got []string
		for _, it := range res.items {
			got = append(got, obs.Canon(it))
		}
		switch kind {
		case 0:
			if noisy && len(res.errs) == 0 && !equalStrings(got, baseCanon) {
				// recorded finding K2: on a unit for which the default process yields nothing (CAT, payload that is neither
				// PSI nor PES) the data returned with skip=false is delivered. Anything else is a violation.
				counts := groupDefaultCounts(stream)
				var rest []string
				onlyEmpty := len(counts) == ngroups
				for _, it := range res.items {
					if g, ok := junk[it]; ok {
						if !onlyEmpty || counts[g].n != 0 {
							onlyEmpty = false
						}
						continue
					}
					rest = append(rest, obs.Canon(it))
				}
				if onlyEmpty && equalStrings(rest, baseCanon) && rec.Known(c19K2, c19K2Text) {
					rec.Class("observer_returning_data_with_skip_false")
					break
				}
			}
			if len(res.errs) > 0 || !equalStrings(got, baseCanon) {
				t.Fatalf("an observing parser (skip=false) changed the output: %d items, %d without parser, errors %s%s\nstream: %s", len(got), len(baseCanon), errStrings(res.errs), firstDiff(got, baseCanon), m.describe())
			}
		case 1:
			// replay the decisions against the default output to build the expectation: group g of the run corresponds to
			// the g-th flushed group; the default data of each group is obtained from an observer run that records, per group,
			// how many default items it produced.
			counts := groupDefaultCounts(stream)
			if len(counts) != ngroups {
				t.Fatalf("harness: %d groups in the observer run, %d in the replacer run", len(counts), ngroups)
			}
			bi := 0
			for g, c := range counts {
				if sel[g%64] && c.pid != 0 {
					n := 1 + g%3
					if g%5 == 4 {
						n = 0
					}
					if constSlice {
						expectOut = append(expectOut, constantCanon...)
						bi += c.n
						continue
					}
					for i := 0; i < n; i++ {
						expectOut = append(expectOut, obs.Canon(&astits.DemuxerData{PID: c.pid, FirstPacket: &astits.Packet{Header: astits.PacketHeader{ContinuityCounter: uint8(g % 16), PID: uint16(i)}}}))
					}
					bi += c.n
				} else {
					for i := 0; i < c.n; i++ {
						expectOut = append(expectOut, c.items[i])
					}
					bi += c.n
				}
			}
			if len(res.errs) > 0 || !equalStrings(got, expectOut) {
				t.Fatalf("replacing parser: output is not exactly the data it returned (plus the default data of the units it let through): %d items, %d expected, errors %s%s\nstream: %s", len(got), len(expectOut), errStrings(res.errs), firstDiff(got, expectOut), m.describe())
			}
		}
		rec.Class([]string{"observer", "replacer", "failing"}[kind])
		if kind == 0 && noisy {
			rec.Class("observer_returning_data_with_skip_false")
		}
		multi := false
		for _, u := range m.units {
			if len(u.packets) >= 2 {
				multi = true
			}
		}
		h := obs.NewHasher()
		h.Bytes(stream)
		h.Int(int64(kind))
		for _, b := range sel {
			if b {
				h.Int(1)
			} else {
				h.Int(0)
			}
		}
		rec.Case(h.Sum(), len(m.pids) >= 2 && multi, func() interface{} {
			return map[string]interface{}{"stream": m.describe(), "parser": []string{"observer", "replacer", "failing"}[kind], "groups": ngroups}
		})
	})
}

type groupCount struct {
	pid   uint16
	n     int
	items []string
}

// groupDefaultCounts runs the stream with a parser that parses every group with the library's default path by
// delegation: it returns skip=false and the harness attributes the items of the following output to the group by
// draining NextData after each group. Implemented by running one Demuxer per group boundary is not possible through
// the API, so the attribution uses a marker: the parser records the group index at the time each item is produced.
func groupDefaultCounts(stream []byte) []groupCount {
	var groups []groupCount
	cur := -1
	parser := func(ps []*astits.Packet) ([]*astits.DemuxerData, bool, error) {
		groups = append(groups, groupCount{pid: ps[0].Header.PID})
		cur = len(groups) - 1
		return nil, false, nil
	}
	d := astits.NewDemuxer(context.Background(), bytes.NewReader(stream), astits.DemuxerOptPacketSize(188), astits.DemuxerOptPacketsParser(parser))
	lastAttributed := -1
	pendingFrom := -1
	pending := 0
	for i := 0; i < len(stream)/188*5+64; i++ {
		before := len(groups)
		x, err := d.NextData()
		if err == astits.ErrNoMorePackets {
			break
		}
		if err != nil {
			continue
		}
		// a call that invoked the parser k times produced this item from the last group invoked; a call that did not
		// invoke it returns an item buffered from the group that produced the previous one
		g := lastAttributed
		if len(groups) > before {
			g = cur
		}
		if g >= 0 {
			groups[g].n++
			groups[g].items = append(groups[g].items, obs.Canon(x))
			lastAttributed = g
		}
		_, _ = pendingFrom, pending
	}
	return groups
}

const (
	c19K2     = "K2-parser-data-with-skip-false-delivered-when-default-yields-nothing"
	c19K2Text = "data returned by a PacketsParser together with skip=false is delivered when the default process yields nothing for the unit (CAT PID, payload that is neither PSI nor PES)"
)

// TestC19KnownK2 probes the recorded finding K2 with a fixed input: a parser that returns data of its own with
// skip=false for every unit of a stream holding a PES unit, a CAT packet and a private (non-PES) unit.
func TestC19KnownK2(t *testing.T) {
	rec := obs.NewRecorder("C19", "known_finding_probe", "fixed input probing finding K2: a PacketsParser returns one item of its own and skip=false for every unit of a stream made of a PAT, a PES unit, a CAT packet and a unit that is neither PSI nor PES; the property demands the default output, unchanged")
	defer rec.Flush()
	pts := uint64(900)
	var ccPAT, ccA, ccB, ccC uint8
	var pk []*ref.TSPacket
	pat := (&ref.Section{TableID: 0, CurrentNext: true, PAT: &astits.PATData{TransportStreamID: 1, Programs: []*astits.PATProgram{{ProgramNumber: 1, ProgramMapID: 0x1000}}}}).Encode()
	pk = append(pk, ref.PacketizeUnit(0, ref.PSIUnit(0, 0, pat), &ccPAT, ref.PktOpts{PadFF: true})...)
	pk = append(pk, ref.PacketizeUnit(0x100, (&ref.PES{StreamID: 0xe0, Length: -1, Opt: &ref.PESOpt{PTS: &pts}, Payload: []byte{1, 2, 3, 4}}).Encode(), &ccA, ref.PktOpts{})...)
	pk = append(pk, ref.PacketizeUnit(1, []byte{0x00, 0x01, 0xb0, 0x09, 0xff, 0xff, 0xc1, 0x00, 0x00, 0x11, 0x22, 0x33, 0x44}, &ccC, ref.PktOpts{PadFF: true})...)
	pk = append(pk, ref.PacketizeUnit(0x200, []byte{0x10, 0x20, 0x30, 0x40, 0x50}, &ccB, ref.PktOpts{})...)
	pk = append(pk, ref.PacketizeUnit(0x100, (&ref.PES{StreamID: 0xe0, Length: -1, Opt: &ref.PESOpt{PTS: &pts}, Payload: []byte{5, 6}}).Encode(), &ccA, ref.PktOpts{})...)
	stream := ref.EncodeAll(pk)
	base := demuxAll(stream)
	junk := map[*astits.DemuxerData]uint16{}
	parser := func(ps []*astits.Packet) ([]*astits.DemuxerData, bool, error) {
		x := &astits.DemuxerData{PID: 0x1abc, FirstPacket: &astits.Packet{Header: astits.PacketHeader{PID: 0x1abc}}}
		junk[x] = ps[0].Header.PID
		return []*astits.DemuxerData{x}, false, nil
	}
	res := demuxAll(stream, astits.DemuxerOptPacketsParser(parser))
	rec.Evals(1)
	rec.Distinct(1)
	rec.Sample(map[string]interface{}{"stream_packets": len(pk), "default_items": len(base.items), "items_with_talkative_parser": len(res.items)})
	if len(base.errs) > 0 || len(res.errs) > 0 {
		t.Fatalf("errors: %s / %s", errStrings(base.errs), errStrings(res.errs))
	}
	var rest []string
	leaked := map[uint16]bool{}
	for _, it := range res.items {
		if pid, ok := junk[it]; ok {
			leaked[pid] = true
			continue
		}
		rest = append(rest, obs.Canon(it))
	}
	var want []string
	for _, it := range base.items {
		want = append(want, obs.Canon(it))
	}
	if !equalStrings(rest, want) {
		t.Fatalf("a parser returning skip=false changed the default items: %d, want %d%s", len(rest), len(want), firstDiff(rest, want))
	}
	if len(leaked) == 0 {
		return
	}
	if leaked[0] || leaked[0x100] {
		t.Fatalf("data returned with skip=false was delivered for a unit that has default output (PIDs %v)", leaked)
	}
	if !rec.Known(c19K2, c19K2Text) {
		t.Fatalf("data returned by the parser with skip=false was delivered (units of PIDs %v)", leaked)
	}
}
