package checks

import (
	"bufio"
	"bytes"
	"context"
	"fmt"
	"io"
	"runtime"
	"testing"

	astits "github.com/asticode/go-astits"
	"pgregory.net/rapid"

	"verifharness/gen"
	"verifharness/obs"
	"verifharness/ref"
)

// C03 — demuxing any finite input terminates without panicking.

type c03Cfg struct {
	packetSize int // 0 = auto
	reader     int // 0 bytes.Reader, 1 bufio, 2 plain, 3 chunked plain
	chunk      int
	api        int // 0 NextData, 1 NextPacket, 2 alternating
	opt        int // 0 none, 1 skipper, 2 observing parser, 3 replacing parser, 4 failing parser
}

func (c c03Cfg) String() string {
	return fmt.Sprintf("packetSize=%d reader=%s chunk=%d api=%s option=%s", c.packetSize,
		[]string{"bytes.Reader", fmt.Sprintf("bufio.Reader(size %d)", c03BufioSize(c)), "plain", "chunked"}[c.reader], c.chunk,
		[]string{"NextData", "NextPacket", "alternating"}[c.api],
		[]string{"none", "skipper", "observing parser", "replacing parser", "failing parser"}[c.opt])
}

func c03CfgFrom(b1, b2 byte) c03Cfg {
	c := c03Cfg{}
	switch b1 % 6 {
	case 0:
		c.packetSize = 0
	case 1:
		c.packetSize = 188
	case 2:
		c.packetSize = 192
	case 3:
		c.packetSize = 204
	case 4:
		c.packetSize = 189 + int(b2)%64
	default:
		c.packetSize = 188
	}
	c.reader = int(b1/6) % 4
	c.chunk = 1 + int(b2)%300
	c.api = int(b1/24) % 3
	c.opt = int(b2/51) % 5
	return c
}

// c03BufioSize derives the caller's bufio buffer size from the (otherwise unused under bufio) chunk value, so that buffers around
// the 193-byte detection window are exercised (seeded change C03-m13, F13) without an additional draw.
func c03BufioSize(c c03Cfg) int {
	return []int{16, 64, 187, 188, 189, 190, 191, 192, 193, 194, 256, 4096}[c.chunk%12]
}

func drawC03Cfg(t *rapid.T) c03Cfg {
	c := c03Cfg{reader: gen.Uniform(t, 4, "reader"), api: gen.Uniform(t, 3, "api"), opt: gen.Uniform(t, 5, "opt")}
	switch gen.Uniform(t, 6, "psk") {
	case 0, 1:
		c.packetSize = 0
	case 2:
		c.packetSize = 188
	case 3:
		c.packetSize = 192
	case 4:
		c.packetSize = 204
	default:
		c.packetSize = rapid.IntRange(189, 4096).Draw(t, "ps")
	}
	c.chunk = rapid.IntRange(1, 400).Draw(t, "chunk")
	return c
}

// c03Drive runs the caller loop "continue on error" and checks termination, progress and the absence of panics.
func c03Drive(input []byte, c c03Cfg) (violation string, sawErr, sawData bool) {
	guarded("NextPacket/NextData", func() { violation, sawErr, sawData = c03DriveUnguarded(input, c) })
	return
}

func c03DriveUnguarded(input []byte, c c03Cfg) (violation string, sawErr, sawData bool) {
	var r io.Reader
	consumed := func() int { return -1 }
	switch c.reader {
	case 0:
		br := bytes.NewReader(input)
		r = br
		consumed = func() int { return len(input) - br.Len() }
	case 1:
		r = bufio.NewReaderSize(bytes.NewReader(input), c03BufioSize(c))
	case 2:
		cr := &countingReader{r: bytes.NewReader(input)}
		r = cr
		consumed = func() int { return cr.n }
	default:
		fr := &faultReader{data: input, failAt: -1, chunk: c.chunk}
		r = fr
		consumed = func() int { return fr.pos }
	}
	var opts []func(*astits.Demuxer)
	if c.packetSize != 0 {
		opts = append(opts, astits.DemuxerOptPacketSize(c.packetSize))
	}
	switch c.opt {
	case 1:
		opts = append(opts, astits.DemuxerOptPacketSkipper(func(p *astits.Packet) bool { return p.Header.PID%2 == 1 }))
	case 2:
		opts = append(opts, astits.DemuxerOptPacketsParser(func(ps []*astits.Packet) ([]*astits.DemuxerData, bool, error) { return nil, false, nil }))
	case 3:
		opts = append(opts, astits.DemuxerOptPacketsParser(func(ps []*astits.Packet) ([]*astits.DemuxerData, bool, error) {
			return []*astits.DemuxerData{{PID: ps[0].Header.PID}}, true, nil
		}))
	case 4:
		n := 0
		opts = append(opts, astits.DemuxerOptPacketsParser(func(ps []*astits.Packet) ([]*astits.DemuxerData, bool, error) {
			n++
			if n%2 == 0 {
				return nil, false, fmt.Errorf("parser refuses group %d", n)
			}
			return nil, false, nil
		}))
	}
	d := astits.NewDemuxer(context.Background(), r, opts...)
	usesPacket := func(i int) bool { return c.api == 1 || (c.api == 2 && i%2 == 1) }
	call := func(i int) (data bool, err error) {
		defer func() {
			if p := recover(); p != nil {
				err = fmt.Errorf("PANIC: %v", p)
			}
		}()
		if usesPacket(i) {
			var p *astits.Packet
			p, err = d.NextPacket()
			return p != nil, err
		}
		var x *astits.DemuxerData
		x, err = d.NextData()
		return x != nil, err
	}
	limit := len(input) + 64
	ended := false
	for i := 0; i < limit; i++ {
		before := consumed()
		data, err := call(i)
		if err != nil && len(err.Error()) >= 6 && err.Error()[:6] == "PANIC:" {
			return fmt.Sprintf("call %d: %v", i, err), sawErr, sawData
		}
		if err == astits.ErrNoMorePackets {
			if c.api == 2 && usesPacket(i) {
				// mixed use: the packets are exhausted but NextData may still hold units that end of stream completes
				continue
			}
			ended = true
			break
		}
		if err != nil {
			sawErr = true
			if before >= 0 && consumed() == before {
				return fmt.Sprintf("call %d returned error %q without consuming any input (offset %d of %d): a caller that continues on errors spins", i, err, before, len(input)), sawErr, sawData
			}
			continue
		}
		if !data {
			return fmt.Sprintf("call %d returned neither data nor an error", i), sawErr, sawData
		}
		sawData = true
	}
	if !ended {
		return fmt.Sprintf("ErrNoMorePackets not reached within %d calls for %d input bytes", limit, len(input)), sawErr, sawData
	}
	for i := 0; i < 3; i++ {
		_, err := call(limit + i)
		if err != astits.ErrNoMorePackets {
			return fmt.Sprintf("call %d after ErrNoMorePackets returned err=%v", i, err), sawErr, sawData
		}
	}
	return "", sawErr, sawData
}

// fixedSection frames body as a section of the given table id with a correct CRC_32 and carries it on pid.
func fixedSectionStream(tableID uint8, pid uint16, body []byte, pmtAfterPAT bool) []byte {
	if len(body) > 4000 {
		body = body[:4000]
	}
	syntax := tableID != 0x73 && tableID != 0x70
	sec := rawSection(tableID, syntax, true, 0x0001, 1, true, 0, 0, body)
	var pk []*ref.TSPacket
	var c0, c1 uint8
	if pmtAfterPAT {
		pat := (&ref.Section{TableID: 0, CurrentNext: true, PAT: &astits.PATData{Programs: []*astits.PATProgram{{ProgramNumber: 1, ProgramMapID: pid}}}}).Encode()
		pk = append(pk, ref.PacketizeUnit(0, ref.PSIUnit(0, 0, pat), &c0, ref.PktOpts{PadFF: true})...)
	}
	pk = append(pk, ref.PacketizeUnit(pid, ref.PSIUnit(0, 0, sec), &c1, ref.PktOpts{PadFF: true})...)
	return ref.EncodeAll(pk)
}

var c03Tables = []struct {
	id  uint8
	pid uint16
	pmt bool
}{{0x00, 0, false}, {0x02, 0x1000, true}, {0x40, 0x10, false}, {0x41, 0x10, false}, {0x42, 0x11, false}, {0x46, 0x11, false}, {0x4e, 0x12, false}, {0x5f, 0x12, false}, {0x6f, 0x12, false}, {0x73, 0x14, false}, {0x70, 0x14, false}, {0x4a, 0x11, false}, {0x72, 0x14, false}}

func drawC03Input(t *rapid.T, rec *obs.Recorder) ([]byte, string) {
	switch gen.Uniform(t, 10, "inputkind") {
	case 8, 9:
		// a CRC-valid PMT / SDT / EIT / TOT whose descriptor loops hold descriptors with a declared length that disagrees
		// with the body their tag implies (shorter, longer, random body) next to valid ones
		loop := func(label string) []byte {
			var body []byte
			for n := rapid.IntRange(1, 3).Draw(t, label+"_n"); n > 0; n-- {
				if gen.Bool(t, label+"_bad") {
					b, _ := badDescriptor(t)
					body = append(body, b...)
				} else {
					body = append(body, ref.EncodeDescriptor(goodDescriptor(t, label+"_good"))...)
				}
			}
			return append([]byte{0xf0 | byte(len(body)>>8), byte(len(body))}, body...)
		}
		switch gen.Uniform(t, 4, "mdtable") {
		case 0:
			body := append([]byte{0xe1, 0x00}, loop("pi")...)
			body = append(body, 0x1b, 0xe1, 0x00)
			body = append(body, loop("es")...)
			body = append(body, 0x0f, 0xe1, 0x01, 0xf0, 0x00)
			return fixedSectionStream(0x02, 0x1000, body, true), "section_with_malformed_descriptor"
		case 1:
			body := []byte{0x00, 0x01, 0xff, 0x00, 0x05, 0xfd}
			l := loop("sv")
			l[0] = l[0]&0x0f | 0x80
			body = append(body, l...)
			return fixedSectionStream(0x42, 0x11, body, false), "section_with_malformed_descriptor"
		case 2:
			body := []byte{0, 1, 0, 2, 0, 0x4e, 0x12, 0x34, 0xc0, 0x79, 0x12, 0x45, 0x00, 0x01, 0x30, 0x00}
			l := loop("ev")
			l[0] = l[0]&0x0f | 0x80
			body = append(body, l...)
			return fixedSectionStream(0x4e, 0x12, body, false), "section_with_malformed_descriptor"
		default:
			body := append([]byte{0xc0, 0x79, 0x12, 0x45, 0x00}, loop("tot")...)
			return fixedSectionStream(0x73, 0x14, body, false), "section_with_malformed_descriptor"
		}
	case 0:
		// random bytes
		n := rapid.IntRange(0, 1500).Draw(t, "n")
		if gen.Bool(t, "near188") {
			n = 188*rapid.IntRange(0, 6).Draw(t, "k") + rapid.IntRange(-3, 5).Draw(t, "d")
			if n < 0 {
				n = 0
			}
		}
		b := gen.Bytes(t, n, "rand")
		if gen.Bool(t, "sync") {
			step := rapid.SampledFrom([]int{188, 189, 192, 204}).Draw(t, "step")
			for i := 0; i < len(b); i += step {
				b[i] = 0x47
			}
		}
		return b, "random"
	case 1, 2:
		// valid stream, mutated
		o := defaultStreamOpts()
		o.maxPESLen, o.maxUnits, o.smallPSI = 500, 2, true
		b := drawStream(t, o).bytes()
		nm := rapid.IntRange(0, 8).Draw(t, "nmut")
		for i := 0; i < nm && len(b) > 0; i++ {
			pos := rapid.IntRange(0, len(b)-1).Draw(t, "mpos")
			switch gen.Uniform(t, 5, "mkind") {
			case 0:
				b[pos] ^= 1 << uint(gen.Uniform(t, 8, "mbit"))
			case 1:
				b[pos] = rapid.SampledFrom([]byte{0, 0xff, 0x47, 0x7f, 0x80}).Draw(t, "mval")
			case 2:
				// adaptation field length / control bits of the packet containing pos
				base := pos / 188 * 188
				if base+5 < len(b) {
					b[base+3] |= 0x20
					b[base+4] = byte(rapid.SampledFrom([]int{0, 1, 182, 183, 184, 255}).Draw(t, "aflen"))
				}
			case 3:
				// splice: drop or duplicate a run of bytes
				l := rapid.IntRange(1, 200).Draw(t, "mlen")
				if pos+l <= len(b) {
					if gen.Bool(t, "dropdup") {
						b = append(b[:pos:pos], b[pos+l:]...)
					} else {
						b = append(b[:pos+l:pos+l], b[pos:]...)
					}
				}
			default:
				b = b[:pos]
			}
		}
		return b, "mutated_stream"
	case 3, 4:
		// arbitrary section body with a correct CRC
		tb := c03Tables[gen.Uniform(t, len(c03Tables), "tbl")]
		body := gen.Bytes(t, rapid.IntRange(0, 300).Draw(t, "bodylen"), "body")
		return fixedSectionStream(tb.id, tb.pid, body, tb.pmt), "crc_fixed_random_section"
	case 5, 6:
		// valid section, body bytes mutated, CRC recomputed
		kind := gen.Uniform(t, 6, "kind")
		s := gen.Section(t, kind, gen.SectionOpts{MaxBody: rapid.IntRange(0, 400).Draw(t, "mb"), MaxItems: 4, MaxDescs: 3}, "sec")
		enc := s.Encode()
		hdr := 8
		if kind == gen.KindTOT {
			hdr = 3
		}
		body := append([]byte{}, enc[hdr:len(enc)-4]...)
		nm := rapid.IntRange(1, 6).Draw(t, "nmut")
		for i := 0; i < nm && len(body) > 0; i++ {
			pos := rapid.IntRange(0, len(body)-1).Draw(t, "mpos")
			switch gen.Uniform(t, 3, "mk") {
			case 0:
				body[pos] ^= 1 << uint(gen.Uniform(t, 8, "mbit"))
			case 1:
				body[pos] = rapid.SampledFrom([]byte{0, 0xff, 0x0f, 0xf0, 1}).Draw(t, "mval")
			default:
				body = body[:pos]
			}
		}
		pid := gen.StandardPID(kind)
		if kind == gen.KindPMT {
			pid = 0x1000
		}
		return fixedSectionStream(s.TableID, pid, body, kind == gen.KindPMT), "crc_fixed_mutated_section"
	default:
		// PES with hostile header fields
		p := &ref.PES{StreamID: gen.StreamIDWithHeader(t, "sid"), Length: -1, Opt: gen.PESOpt(t, gen.PESOptOpts{}, "opt"), Payload: gen.Bytes(t, rapid.IntRange(0, 300).Draw(t, "pl"), "plb")}
		if gen.Bool(t, "unbounded") {
			p.Length = 0
		}
		enc := p.Encode()
		for i := rapid.IntRange(1, 4).Draw(t, "nmut"); i > 0; i-- {
			pos := rapid.IntRange(3, min(len(enc)-1, 30)).Draw(t, "mpos")
			if gen.Bool(t, "lenfields") {
				// PES_packet_length, flags and PES_header_data_length decide where the payload starts and ends
				pos = rapid.IntRange(4, min(len(enc)-1, 8)).Draw(t, "mposl")
			}
			enc[pos] = rapid.SampledFrom([]byte{0, 0xff, 0x80, 0x7f, 1, 5}).Draw(t, "mval")
		}
		cc := uint8(0)
		pk := ref.PacketizeUnit(0x100, enc, &cc, ref.PktOpts{})
		pk = append(pk, ref.PacketizeUnit(0x100, enc, &cc, ref.PktOpts{})...)
		return ref.EncodeAll(pk), "hostile_pes_header"
	}
}

func TestC03Inputs(t *testing.T) {
	rec := obs.NewRecorder("C03", "inputs", "rapid: inputs {random bytes (any length, sync-studded or not); well-formed streams with bit flips, byte substitutions, forced adaptation_field_length values, spliced-out/duplicated runs and truncations; arbitrary and mutated section bodies of every table id wrapped with a correct CRC_32 and valid packet framing (so table and descriptor parsers are reached); PES packets with hostile header bytes} x configurations {packet size auto/188/192/204/189..4096} x {bytes.Reader, bufio.Reader with a buffer of 16/64/187..194/256/4096 bytes, plain, chunked} x {NextData, NextPacket, alternating} x {no option, skipper, observing/replacing/failing parser}; oracle: no panic, every call consumes input or returns data or ErrNoMorePackets (no spinning; not asserted under bufio), ErrNoMorePackets within len(input)+64 calls and again on 3 further calls; non-trivial = input >= 2 packets and at least one call returned an error and one returned data; distinct by input bytes + configuration")
	defer rec.Flush()
	rapid.Check(t, c03InputsProp(rec))
}

// c03InputsProp is the property of the inputs unit; it is also driven by the native fuzzer through rapid.MakeFuzz.
func c03InputsProp(rec *obs.Recorder) func(t *rapid.T) {
	return func(t *rapid.T) {
		input, kind := drawC03Input(t, rec)
		c := drawC03Cfg(t)
		v, sawErr, sawData := c03Drive(input, c)
		if v != "" {
			t.Fatalf("%s\nconfiguration: %s\ninput (%d bytes, %s): %x", v, c, len(input), kind, input)
		}
		rec.Class("input_" + kind)
		if c.packetSize == 0 {
			rec.Class("auto_detect")
		}
		if sawErr {
			rec.Class("some_call_returned_an_error")
		}
		h := obs.NewHasher()
		h.Bytes(input)
		h.String(c.String())
		rec.Case(h.Sum(), len(input) >= 376 && sawErr && sawData, func() interface{} {
			return map[string]interface{}{"input_kind": kind, "input_len": len(input), "input_head": hexHead(input, 48), "configuration": c.String()}
		})
	}
}

// FuzzC03Structured lets the coverage-guided fuzzer drive the structured generators of the inputs unit.
func FuzzC03Structured(f *testing.F) {
	f.Fuzz(rapid.MakeFuzz(c03InputsProp(obs.NewRecorder("C03", "fuzz_structured", ""))))
}

// TestC03Truncation: a stream cut at any offset gives the output of its whole packets and no error.
func TestC03Truncation(t *testing.T) {
	rec := obs.NewRecorder("C03", "truncation", "rapid: well-formed streams cut at EVERY byte offset (exhaustive per stream), explicit packet size 188, NextData and NextPacket: the output must equal the output of the stream cut at the previous packet boundary (a truncated final packet is end of stream, not an error), and with auto-detection no call may panic or spin; plus the empty input; non-trivial = every case; distinct by stream bytes")
	defer rec.Flush()
	rapid.Check(t, func(t *rapid.T) {
		o := defaultStreamOpts()
		o.maxPESLen, o.maxUnits, o.maxPESPIDs, o.maxPMTPIDs, o.smallPSI = 300, 2, 2, 1, true
		data := drawStream(t, o).bytes()
		if len(data) > 188*14 {
			data = data[:188*14]
		}
		var whole []string // canon of NextData output per whole-packet prefix
		wholeFor := func(n int) string {
			res := demuxAll(data[:n*188])
			s := fmt.Sprintf("errs=%d;", len(res.errs))
			for _, it := range res.items {
				s += obs.Canon(it) + ";"
			}
			return s
		}
		for n := 0; n <= len(data)/188; n++ {
			whole = append(whole, wholeFor(n))
		}
		for cut := 0; cut <= len(data); cut++ {
			res := demuxAll(data[:cut])
			if !res.ended {
				t.Fatalf("cut at %d: no ErrNoMorePackets", cut)
			}
			s := fmt.Sprintf("errs=%d;", len(res.errs))
			for _, it := range res.items {
				s += obs.Canon(it) + ";"
			}
			if s != whole[cut/188] {
				t.Fatalf("stream cut at offset %d (inside packet %d): output differs from the output of the first %d whole packets (errors: %s)\nstream %x", cut, cut/188, cut/188, errStrings(res.errs), data[:cut])
			}
			// packets
			d := astits.NewDemuxer(context.Background(), bytes.NewReader(data[:cut]), astits.DemuxerOptPacketSize(188))
			np := 0
			for {
				_, err := d.NextPacket()
				if err == astits.ErrNoMorePackets {
					break
				}
				if err != nil {
					t.Fatalf("cut at %d: NextPacket error %v", cut, err)
				}
				np++
			}
			if np != cut/188 {
				t.Fatalf("cut at %d: %d packets returned, want %d", cut, np, cut/188)
			}
			if cut%7 == 0 {
				for _, rk := range []int{0, 1, 2} {
					if v, _, _ := c03Drive(data[:cut], c03Cfg{packetSize: 0, reader: rk, api: cut % 3}); v != "" {
						t.Fatalf("cut at %d, auto-detection, reader %d: %s", cut, rk, v)
					}
				}
			}
		}
		rec.ClassN("cut_offsets", int64(len(data)+1))
		h := obs.NewHasher()
		h.Bytes(data)
		rec.Case(h.Sum(), true, func() interface{} {
			return map[string]interface{}{"stream_len": len(data), "cut_offsets": len(data) + 1}
		})
	})
}

func c03Seeds() [][]byte {
	var seeds [][]byte
	seeds = append(seeds, []byte{}, []byte{0x47}, bytes.Repeat([]byte{0x47}, 193), bytes.Repeat([]byte{0xff}, 400), bytes.Repeat([]byte{0}, 400))
	// a small valid stream from the Muxer
	var buf cappedBuffer
	m := astits.NewMuxer(context.Background(), &buf)
	_ = m.AddElementaryStream(astits.PMTElementaryStream{ElementaryPID: 0x100, StreamType: astits.StreamTypeH264Video})
	m.SetPCRPID(0x100)
	pts := &astits.ClockReference{Base: 90000}
	for i := 0; i < 3; i++ {
		_, _ = m.WriteData(&astits.MuxerData{PID: 0x100, AdaptationField: &astits.PacketAdaptationField{HasPCR: true, PCR: &astits.ClockReference{Base: 1}, RandomAccessIndicator: i == 0},
			PES: &astits.PESData{Header: &astits.PESHeader{StreamID: 0xe0, OptionalHeader: &astits.PESOptionalHeader{MarkerBits: 2, PTSDTSIndicator: 2, PTS: pts}}, Data: bytes.Repeat([]byte{byte(i)}, 300)}})
	}
	seeds = append(seeds, buf.Bytes())
	for _, tb := range c03Tables {
		seeds = append(seeds, fixedSectionStream(tb.id, tb.pid, []byte{0xe1, 0x00, 0xf0, 0x06, 0x0a, 0x04, 'e', 'n', 'g', 0, 0x1b, 0xe1, 0x00, 0xf0, 0x00}, tb.pmt))
	}
	// 192-byte framing of the muxer stream
	var b192 []byte
	for i := 0; i+188 <= buf.Len(); i += 188 {
		b192 = append(b192, 0x47, 1, 2, 3, 4)
		b192 = append(b192, buf.Bytes()[i+1:i+188]...)
	}
	seeds = append(seeds, b192)
	return seeds
}

func FuzzC03(f *testing.F) {
	for _, s := range c03Seeds() {
		for _, c := range []byte{0, 1, 2, 7, 13, 25, 50} {
			f.Add(s, c, byte(len(s)))
		}
	}
	f.Fuzz(func(t *testing.T, input []byte, b1, b2 byte) {
		if len(input) > 1<<16 {
			return
		}
		if v, _, _ := c03Drive(input, c03CfgFrom(b1, b2)); v != "" {
			t.Fatalf("%s\nconfiguration: %s", v, c03CfgFrom(b1, b2))
		}
	})
}

// FuzzC03Sections lets the fuzzer write section bodies; the harness supplies framing and CRC so parsers are reached.
func FuzzC03Sections(f *testing.F) {
	for i := range c03Tables {
		f.Add(byte(i), []byte{0xe1, 0x00, 0xf0, 0x06, 0x0a, 0x04, 'e', 'n', 'g', 0, 0x1b, 0xe1, 0x00, 0xf0, 0x00})
		f.Add(byte(i), []byte{})
	}
	f.Fuzz(func(t *testing.T, sel byte, body []byte) {
		tb := c03Tables[int(sel)%len(c03Tables)]
		input := fixedSectionStream(tb.id, tb.pid, body, tb.pmt)
		if v, _, _ := c03Drive(input, c03Cfg{packetSize: 188, reader: 0}); v != "" {
			t.Fatalf("%s\ntable %#x body %x", v, tb.id, body)
		}
	})
}

// TestC03DescriptorLengths: typed descriptors with every declared length around their real one, inside CRC-valid
// tables: parsing must never panic, spin or fail to reach the end of the stream.
func TestC03DescriptorLengths(t *testing.T) {
	rec := obs.NewRecorder("C03", "descriptor_lengths", "rapid: a typed descriptor tag (uniform over the 23) and a generated value; EVERY declared descriptor_length from 0 to body+3 (body bytes cut or extended accordingly) is placed first in the ES loop of a CRC-valid PMT and in the loops of a CRC-valid SDT and TOT, followed by a valid descriptor: NextData must not panic and must reach ErrNoMorePackets; non-trivial = body >= 3 bytes; distinct by tag and body")
	defer rec.Flush()
	rapid.Check(t, func(t *rapid.T) {
		tag := gen.TypedTags[gen.Uniform(t, len(gen.TypedTags), "tag")]
		d := gen.DescriptorOfTag(t, tag, 60, "d")
		if d == nil {
			d = &astits.Descriptor{Tag: tag}
		}
		body := ref.DescriptorBody(d)
		for l := 0; l <= len(body)+3; l++ {
			b := append([]byte{}, body...)
			for len(b) < l {
				b = append(b, byte(0x80|len(b)))
			}
			bad := append([]byte{tag, byte(l)}, b[:l]...)
			good := []byte{0x52, 0x01, 0x07}
			loopBody := append(append([]byte{}, bad...), good...)
			loop := append([]byte{0xf0 | byte(len(loopBody)>>8), byte(len(loopBody))}, loopBody...)
			pmt := append([]byte{0xe1, 0x00, 0xf0, 0x00, 0x1b, 0xe1, 0x00}, loop...)
			pmt = append(pmt, 0x0f, 0xe1, 0x01, 0xf0, 0x00)
			tot := append([]byte{0xc0, 0x79, 0x12, 0x45, 0x00}, loop...)
			sdtLoop := append([]byte{}, loop...)
			sdtLoop[0] = sdtLoop[0]&0x0f | 0x80
			sdt := append([]byte{0x00, 0x01, 0xff, 0x00, 0x05, 0xfd}, sdtLoop...)
			for _, in := range [][]byte{fixedSectionStream(0x02, 0x1000, pmt, true), fixedSectionStream(0x73, 0x14, tot, false), fixedSectionStream(0x42, 0x11, sdt, false)} {
				if v, _, _ := c03Drive(in, c03Cfg{packetSize: 188}); v != "" {
					t.Fatalf("descriptor tag %#x declared length %d (real body %x): %s", tag, l, body, v)
				}
			}
		}
		rec.Class(fmt.Sprintf("tag_%02x", tag))
		h := obs.NewHasher()
		h.Int(int64(tag))
		h.Bytes(body)
		rec.Case(h.Sum(), len(body) >= 3, func() interface{} {
			return map[string]interface{}{"tag": tag, "body": fmt.Sprintf("%x", body), "declared_lengths_tried": len(body) + 4}
		})
	})
}

// TestC03ShortSections: sections whose section_length is too small for their table, for every table id the library
// knows, with a checksum that verifies and with one that does not.
func TestC03ShortSections(t *testing.T) {
	rec := obs.NewRecorder("C03", "short_sections", "deterministic sweep: for each of 13 table ids on its PID (PMT after a PAT) x section_syntax_indicator 0/1 x EVERY section_length 0..24 x {CRC_32 of the bytes before it, wrong CRC_32} x three fill patterns x one or two such sections in the unit: NextData must not panic and must reach ErrNoMorePackets; distinct by construction")
	defer rec.Flush()
	total := int64(0)
	for _, tb := range c03Tables {
		for _, syntax := range []byte{0xb0, 0x30} {
			for l := 0; l <= 24; l++ {
				for _, goodCRC := range []bool{true, false} {
					for _, fill := range []byte{0x00, 0xff, 0x5a} {
						sec := []byte{tb.id, syntax | byte(l>>8), byte(l)}
						for i := 0; i < l; i++ {
							sec = append(sec, fill^byte(i*7))
						}
						if l >= 4 {
							crc := ref.CRC32MPEG2(sec[:len(sec)-4])
							if !goodCRC {
								crc ^= 0x00010000
							}
							sec[len(sec)-4], sec[len(sec)-3], sec[len(sec)-2], sec[len(sec)-1] = byte(crc>>24), byte(crc>>16), byte(crc>>8), byte(crc)
						}
						for _, twice := range []bool{false, true} {
							unit := [][]byte{sec}
							if twice {
								unit = append(unit, sec)
							}
							var pk []*ref.TSPacket
							var c0, c1 uint8
							if tb.pmt {
								pat := (&ref.Section{TableID: 0, CurrentNext: true, PAT: &astits.PATData{Programs: []*astits.PATProgram{{ProgramNumber: 1, ProgramMapID: tb.pid}}}}).Encode()
								pk = append(pk, ref.PacketizeUnit(0, ref.PSIUnit(0, 0, pat), &c0, ref.PktOpts{PadFF: true})...)
							}
							pk = append(pk, ref.PacketizeUnit(tb.pid, ref.PSIUnit(0, 0, unit...), &c1, ref.PktOpts{PadFF: true})...)
							if v, _, _ := c03Drive(ref.EncodeAll(pk), c03Cfg{packetSize: 188}); v != "" {
								t.Fatalf("table id %#x, section_length %d (syntax bits %#x, CRC valid %v, fill %#x, %d sections): %s", tb.id, l, syntax, goodCRC, fill, len(unit), v)
							}
							total++
						}
					}
				}
			}
		}
	}
	rec.Enumerated(total)
	rec.SetExhaustive(true)
	rec.Sample(map[string]interface{}{"table_ids": len(c03Tables), "section_lengths": "0..24", "inputs": total})
}

// TestC03SkipRunDepth: a long run of packets rejected by a PacketSkipper must be stepped over in constant stack space -
// a stack that grows with the run ends in a fatal stack overflow (not even a recoverable panic) on a long enough input.
func TestC03SkipRunDepth(t *testing.T) {
	rec := obs.NewRecorder("C03", "skip_run_depth", "deterministic: 4000 packets that a PacketSkipper rejects, followed by one it keeps, through NextPacket and NextData with packets of 188 and 192 bytes: the call depth observed inside the predicate (runtime.Callers) at the last rejected packet must not exceed the depth at the first by more than 8 frames, and the kept packet must be returned; distinct by construction")
	defer rec.Flush()
	const run = 4000
	var pk []*ref.TSPacket
	for i := 0; i < run; i++ {
		pk = append(pk, &ref.TSPacket{PID: 0x100, HasPayload: true, CC: uint8(i), Payload: bytes.Repeat([]byte{byte(i)}, 184)})
	}
	pk = append(pk, &ref.TSPacket{PID: 0x101, PUSI: true, HasPayload: true, Payload: append([]byte{0, 0, 1, 0xe0, 0, 0, 0x80, 0, 0}, bytes.Repeat([]byte{7}, 175)...)})
	stream := ref.EncodeAll(pk)
	total := int64(0)
	for _, size := range []int{188, 192} {
		data := stream
		if size != 188 {
			data = frame(stream, size-188, func(i int) byte { return byte(0x80 | i%100) })
		}
		for api := 0; api < 2; api++ {
			first, last, calls := 0, 0, 0
			skip := func(p *astits.Packet) bool {
				calls++
				d := runtime.Callers(0, make([]uintptr, 8192))
				if calls == 1 {
					first = d
				}
				if p.Header.PID == 0x100 {
					last = d
					return true
				}
				return false
			}
			d := astits.NewDemuxer(context.Background(), bytes.NewReader(data), astits.DemuxerOptPacketSize(size), astits.DemuxerOptPacketSkipper(skip))
			var err error
			got := false
			if api == 0 {
				var p *astits.Packet
				p, err = d.NextPacket()
				got = p != nil && p.Header.PID == 0x101
			} else {
				var x *astits.DemuxerData
				x, err = d.NextData()
				got = x != nil && x.PID == 0x101
			}
			if err != nil || !got {
				t.Fatalf("packets of %d bytes, api %d: the packet after %d skipped ones was not returned (err=%v)", size, api, run, err)
			}
			if calls != run+1 || last > first+8 {
				t.Fatalf("packets of %d bytes, api %d: predicate consulted %d times; call depth %d at the first skipped packet, %d at the last of %d: the stack grows with the run of skipped packets", size, api, calls, first, last, run)
			}
			total++
		}
	}
	rec.Enumerated(total)
	rec.SetExhaustive(true)
	rec.Sample(map[string]interface{}{"skipped_run": run, "configurations": total})
}
