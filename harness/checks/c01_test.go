package checks

import (
	"bytes"
	"fmt"
	"testing"

	astits "github.com/asticode/go-astits"
	"pgregory.net/rapid"

	"verifharness/conv"
	"verifharness/gen"
	"verifharness/obs"
	"verifharness/ref"
)

// C01 — mux -> demux round trip returns every PES and table exactly once, unaltered.

// normDescs returns descriptors as a parser must deliver them after a round trip: Length is the body length and a
// zero-length descriptor is a bare {Tag}.
func normDescs(ds []*astits.Descriptor) []*astits.Descriptor {
	var out []*astits.Descriptor
	for _, d := range ds {
		body := ref.DescriptorBody(d)
		if len(body) == 0 {
			out = append(out, &astits.Descriptor{Tag: d.Tag})
			continue
		}
		c := *d
		c.Length = uint8(len(body))
		if c.VBIData != nil {
			v := &astits.DescriptorVBIData{}
			for _, s := range c.VBIData.Services {
				sc := *s
				if !ref.VBIKnownService(s.DataServiceID) {
					sc.Descriptors = nil
				}
				v.Services = append(v.Services, &sc)
			}
			c.VBIData = v
		}
		out = append(out, &c)
	}
	return out
}

func expectedPMT(cfg *muxCfg) *astits.PMTData {
	d := &astits.PMTData{ProgramNumber: 1, PCRPID: cfg.pcr}
	for _, s := range cfg.streams {
		d.ElementaryStreams = append(d.ElementaryStreams, &astits.PMTElementaryStream{ElementaryPID: s.pid, StreamType: s.stype, ElementaryStreamDescriptors: normDescs(s.descs)})
	}
	return d
}

// afSemantic renders the semantic content of a parsed adaptation field (stuffing and lengths are the muxer's business).
func afSemantic(a *astits.PacketAdaptationField) string {
	if a == nil {
		return obs.Canon(&astits.PacketAdaptationField{}, "Length", "StuffingLength", "IsOneByteStuffing")
	}
	c := *a
	c.SpliceCountdown &= 0xff
	if c.AdaptationExtensionField != nil {
		e := *c.AdaptationExtensionField
		e.Length = 0
		c.AdaptationExtensionField = &e
	}
	return obs.Canon(&c, "Length", "StuffingLength", "IsOneByteStuffing")
}

// analyzeC01 demultiplexes the trace's output and compares it with what the successful calls wrote.
func analyzeC01(tr *muxTrace) string {
	if _, err := packetsOf(tr.out); err != nil {
		return "output does not decode: " + err.Error()
	}
	res := demuxAll(tr.out)
	if !res.ended {
		return "demuxing the output does not reach ErrNoMorePackets"
	}
	if len(res.errs) > 0 {
		return "demuxing the output reports errors: " + errStrings(res.errs)
	}
	got := byPID(res.items)
	// expectations per PID
	type expPES struct {
		step     *stepRec
		optional bool // last unit of a stream incarnation that is followed by a re-added stream on the same PID
	}
	exp := map[uint16][]*expPES{}
	var expPMTs []*muxCfg
	for _, s := range tr.steps {
		if len(s.out) > 0 && (s.kind == opData || s.kind == opTables) {
			for _, p := range mustPackets(s.out) {
				if p.PID == 0 {
					expPMTs = append(expPMTs, s.cfgBefore)
				}
			}
		}
		if s.kind == opData && s.err == nil {
			exp[s.pid] = append(exp[s.pid], &expPES{step: s})
		}
	}
	for _, l := range exp {
		for i := 0; i+1 < len(l); i++ {
			if l[i].step.streamGen != l[i+1].step.streamGen {
				l[i].optional = true
			}
		}
	}
	for pid, want := range exp {
		g := got[pid]
		gi := 0
		if want[0].step.streamGen != want[len(want)-1].step.streamGen {
			// the PID was removed and added again (possible through automatic assignment even when explicit re-adds are
			// avoided): its continuity counter restarted, units next to the boundary may be lost or glued (see C05's scope)
			continue
		}
		for _, w := range want {
			s := w.step
			if gi >= len(g) || g[gi].PES == nil || !bytes.Equal(g[gi].PES.Data, s.pes.Payload) {
				if w.optional {
					continue
				}
				if gi >= len(g) {
					return fmt.Sprintf("PID %#x: the PES written by step %d (%s) is missing: %d delivered, %d written", pid, s.idx, s.desc, len(g), len(want))
				}
				if g[gi].PES == nil {
					return fmt.Sprintf("PID %#x: item %d is not a PES: %s", pid, gi, obs.Trunc(obs.Canon(g[gi]), 300))
				}
				return fmt.Sprintf("PID %#x: payload of the PES written by step %d (%s) differs: got %s want %s", pid, s.idx, s.desc, hexHead(g[gi].PES.Data, 32), hexHead(s.pes.Payload, 32))
			}
			d := g[gi]
			gi++
			h := d.PES.Header
			wantID := s.pes.StreamID
			if wantID == 0 {
				wantID = s.stype.ToPESStreamID()
			}
			if h.StreamID != wantID {
				return fmt.Sprintf("PID %#x step %d (%s): stream id %#x delivered, %#x written (stream type %#x)", pid, s.idx, s.desc, h.StreamID, wantID, uint8(s.stype))
			}
			actual := s.pes.HeaderSize() - 6 + len(s.pes.Payload)
			videoID := wantID >= 0xe0 && wantID <= 0xef || wantID == 0xfd
			switch {
			case actual > 0xffff && h.PacketLength != 0:
				return fmt.Sprintf("PID %#x step %d: PES_packet_length %d for %d bytes", pid, s.idx, h.PacketLength, actual)
			case actual <= 0xffff && int(h.PacketLength) != actual && !(h.PacketLength == 0 && videoID):
				return fmt.Sprintf("PID %#x step %d (%s): PES_packet_length %d delivered, actual %d", pid, s.idx, s.desc, h.PacketLength, actual)
			}
			var wantOpt *astits.PESOptionalHeader
			if hasOptHeaderLib(wantID) {
				wantOpt = conv.PESOptStruct(s.pes.Opt, true)
			}
			if gs, ws := obs.Canon(h.OptionalHeader), obs.Canon(wantOpt); gs != ws {
				return fmt.Sprintf("PID %#x step %d (%s): optional PES header differs:\n%s", pid, s.idx, s.desc, obs.Diff(gs, ws))
			}
			if s.afFits {
				fp := d.FirstPacket
				if fp == nil {
					return fmt.Sprintf("PID %#x step %d: no FirstPacket", pid, s.idx)
				}
				if fp.Header.PID != pid || !fp.Header.PayloadUnitStartIndicator {
					return fmt.Sprintf("PID %#x step %d: FirstPacket header %s", pid, s.idx, obs.Canon(fp.Header))
				}
				if gs, ws := afSemantic(fp.AdaptationField), afSemantic(conv.AFStruct(s.af, true)); gs != ws {
					return fmt.Sprintf("PID %#x step %d (%s): first-packet adaptation field differs:\n%s", pid, s.idx, s.desc, obs.Diff(gs, ws))
				}
			}
		}
		if gi != len(g) {
			return fmt.Sprintf("PID %#x: %d items delivered beyond the %d PES written (duplicate or foreign data): %s", pid, len(g)-gi, len(want), obs.Trunc(obs.Canon(g[gi]), 300))
		}
	}
	for pid, g := range got {
		if pid == 0 || pid == pmtPID {
			continue
		}
		if _, ok := exp[pid]; !ok && !isWritePacketPID(pid) {
			return fmt.Sprintf("PID %#x: %d items delivered but nothing was written there", pid, len(g))
		}
	}
	// tables: one PAT/PMT pair per emission, describing the configuration of that moment
	pats, pmts := got[0], got[pmtPID]
	if len(pats) != len(expPMTs) || len(pmts) != len(expPMTs) {
		return fmt.Sprintf("%d PAT and %d PMT delivered for %d table emissions", len(pats), len(pmts), len(expPMTs))
	}
	for i, cfg := range expPMTs {
		if pats[i].PAT == nil || len(pats[i].PAT.Programs) != 1 || pats[i].PAT.Programs[0].ProgramNumber != 1 || pats[i].PAT.Programs[0].ProgramMapID != pmtPID {
			return fmt.Sprintf("PAT %d: %s", i, obs.Canon(pats[i].PAT))
		}
		if pmts[i].PMT == nil {
			return fmt.Sprintf("item %d on the PMT PID is not a PMT", i)
		}
		if gs, ws := obs.Canon(pmts[i].PMT), obs.Canon(expectedPMT(cfg)); gs != ws {
			return fmt.Sprintf("PMT of emission %d does not describe the configured streams:\n%s", i, obs.Diff(gs, ws))
		}
	}
	return ""
}

func c01Profile() muxProfile {
	// valid calls only, adaptation fields share the first packet with the PES header where they fit; no
	// discontinuity_indicator (it asks the receiver to drop its state)
	return muxProfile{maxOps: 40, bigPayload: true, bigAF: true}
}

func TestC01RoundTrip(t *testing.T) {
	rec := obs.NewRecorder("C01", "roundtrip", "rapid: histories of 1..40 Add (explicit 13-bit PID or PID 0 = automatic, any stream type, 0..3 ES descriptors)/Remove/SetPCRPID/WriteTables/WriteData calls; PES with stream id 0 (derived) or explicit, every supported optional-header combination, payload lengths >= 1 biased to k*184 - header - AF +/- 2, to 1 and to 65530..70000, first-packet adaptation fields with any of RAI/ES priority/PCR/OPCR/splice countdown/private data/extension; the writer's bytes are demuxed: per PID exactly one PES per successful WriteData in order with equal payload, stream id, PES_packet_length (actual or 0 where allowed), optional header and first-packet adaptation field semantics, one PAT/PMT pair per emission whose PMT equals the configuration at that moment, no error; non-trivial = >= 2 PIDs written, >= 1 PES over >= 2 packets and >= 1 adaptation field; distinct by history")
	defer rec.Flush()
	rapid.Check(t, func(t *rapid.T) {
		period, setp, ops := genMuxHistory(t, c01Profile())
		tr := runMuxHistory(period, setp, ops, &writerSpy{}, true)
		for i := 0; i < tr.reAddAvoided; i++ {
			rec.Excluded("re-add_of_a_removed_pid(continuity_counter_restarts)")
		}
		if v := analyzeC01(tr); v != "" {
			t.Fatalf("%s\nhistory:\n%s", v, tr.render())
		}
		pids := map[uint16]bool{}
		multi, af, huge, auto := false, false, false, false
		for _, s := range tr.steps {
			if s.kind == opData && s.err == nil {
				pids[s.pid] = true
				if s.pes.HeaderSize()+len(s.pes.Payload) > 184 {
					multi = true
				}
				if s.af != nil {
					af = true
				}
				if len(s.pes.Payload) > 65535 {
					huge = true
				}
			}
			if s.kind == opAdd && s.err == nil && len(s.cfgAfter.streams) > 0 && s.cfgAfter.streams[len(s.cfgAfter.streams)-1].auto {
				auto = true
			}
		}
		for _, s := range tr.steps {
			if s.kind == opData && s.err == nil && s.af != nil && s.af.Size()+s.pes.HeaderSize() == 184 {
				rec.Class("af+pes_header_fill_first_packet_exactly")
				break
			}
		}
		if huge {
			rec.Class("payload>65535")
		}
		if auto {
			rec.Class("auto_assigned_pid")
		}
		if len(pids) >= 2 {
			rec.Class(">=2_pids_written")
		}
		muxClasses(rec, tr)
		rec.Case(historySig(tr), len(pids) >= 2 && multi && af, func() interface{} { return tr.render() })
	})
}

// TestC01PMTFill: PMTs that fill their packet exactly (or leave one or two bytes), followed by a configuration change
// and another emission.
func TestC01PMTFill(t *testing.T) {
	rec := obs.NewRecorder("C01", "pmt_fill", "rapid: 1..5 streams whose last one carries a user-defined descriptor sized so that the PMT section ends exactly on the last byte of its packet, or 1..3 bytes before it; tables are emitted, PES are written, then a stream is removed (shorter PMT) or the PCR PID set again and tables are emitted again; same round-trip oracle as the roundtrip unit plus the table checks of C04/C17 (every emission delivered, in order); non-trivial = every case; distinct by history")
	defer rec.Flush()
	rapid.Check(t, func(t *rapid.T) {
		n := rapid.IntRange(1, 5).Draw(t, "streams")
		var ops []muxOp
		used := 17 // pointer_field + section header (8) + PCR PID/program info (4) + CRC (4)
		for i := 0; i < n; i++ {
			op := muxOp{kind: opAdd, pid: uint16(0x100 + i), stype: drawStreamType(t)}
			if i < n-1 {
				if gen.Bool(t, "desc") {
					op.descs = gen.Descriptors(t, 2, 20, "d")
				}
				used += 5 + len(ref.EncodeDescriptors(op.descs))
			} else {
				gap := rapid.IntRange(0, 3).Draw(t, "gap")
				room := 184 - used - 5 - 2 - gap
				if room < 0 || room > 255 {
					t.Skip("no room")
				}
				op.descs = []*astits.Descriptor{{Tag: uint8(rapid.IntRange(0x80, 0xfe).Draw(t, "tag")), UserDefined: gen.Bytes(t, room, "fill")}}
				used += 5 + 2 + room
			}
			ops = append(ops, op)
		}
		pts := uint64(777)
		data := func(sel int) muxOp {
			return muxOp{kind: opData, sel: sel, pes: &ref.PES{StreamID: 0xc0, Length: -1, Opt: &ref.PESOpt{PTS: &pts}, Payload: gen.Bytes(t, rapid.IntRange(1, 300).Draw(t, "pl"), "plb")}}
		}
		ops = append(ops, muxOp{kind: opSetPCR, sel: 0}, muxOp{kind: opTables}, data(0))
		if gen.Bool(t, "twice") {
			ops = append(ops, muxOp{kind: opTables})
		}
		switch gen.Uniform(t, 3, "change") {
		case 0:
			if n > 1 {
				ops = append(ops, muxOp{kind: opRemove, sel: rapid.IntRange(1, n-1).Draw(t, "rm")})
			} else {
				ops = append(ops, muxOp{kind: opAdd, pid: 0x300, stype: astits.StreamTypeAACAudio})
			}
		case 1:
			ops = append(ops, muxOp{kind: opSetPCR, sel: 0})
		default:
			ops = append(ops, muxOp{kind: opAdd, auto: true, stype: astits.StreamTypeAACAudio})
		}
		ops = append(ops, muxOp{kind: opTables}, data(0), muxOp{kind: opTables})
		tr := runMuxHistory(40, false, ops, &writerSpy{}, true)
		for _, f := range []func(*muxTrace) string{analyzeC04, analyzeC01, func(tr *muxTrace) string { v, _ := analyzeC17(tr); return v }} {
			if v := f(tr); v != "" {
				t.Fatalf("%s\nhistory:\n%s", v, tr.render())
			}
		}
		rec.Case(historySig(tr), true, func() interface{} { return tr.render() })
	})
}
