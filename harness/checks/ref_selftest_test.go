package checks

import (
	"bytes"
	"encoding/hex"
	"strings"
	"testing"

	astits "github.com/asticode/go-astits"
	"pgregory.net/rapid"

	"verifharness/gen"
	"verifharness/obs"
	"verifharness/ref"
)

// Self tests of the reference code (run by setup_cmd): golden vectors that do not come from the library's encoders,
// and encoder against decoder of the reference itself.

func unhex(s string) []byte {
	b, err := hex.DecodeString(strings.Join(strings.Fields(s), ""))
	if err != nil {
		panic(err)
	}
	return b
}

// PAT and PMT packets as written by a third-party multiplexer (they are the input vectors of the library's
// TestDemuxerNextDataPATPMT): transport_stream_id 1, program 1 -> PID 0x1000; PCR PID 0x100, H.264 on 0x100, AAC on 0x101.
func TestRefGoldenTables(t *testing.T) {
	patWant := unhex("474000100000b00d0001c100000001f0002ab104b2")
	pmtWant := unhex("475000100002b0170001c10000e100f0001be100f0000fe101f0002f44b99b")
	pat := &ref.Section{TableID: 0, Version: 0, CurrentNext: true, PAT: &astits.PATData{TransportStreamID: 1, Programs: []*astits.PATProgram{{ProgramNumber: 1, ProgramMapID: 0x1000}}}}
	pmt := &ref.Section{TableID: 2, Version: 0, CurrentNext: true, PMT: &astits.PMTData{ProgramNumber: 1, PCRPID: 0x100, ElementaryStreams: []*astits.PMTElementaryStream{
		{ElementaryPID: 0x100, StreamType: astits.StreamTypeH264Video}, {ElementaryPID: 0x101, StreamType: astits.StreamTypeAACAudio}}}}
	for _, c := range []struct {
		name string
		pid  uint16
		sec  *ref.Section
		want []byte
	}{{"PAT", 0, pat, patWant}, {"PMT", 0x1000, pmt, pmtWant}} {
		cc := uint8(0xf)
		pk := ref.PacketizeUnit(c.pid, ref.PSIUnit(0, 0, c.sec.Encode()), &cc, ref.PktOpts{PadFF: true})
		if len(pk) != 1 {
			t.Fatalf("%s: %d packets", c.name, len(pk))
		}
		got := pk[0].MustEncode()
		want := append(append([]byte{}, c.want...), bytes.Repeat([]byte{0xff}, 188-len(c.want))...)
		if !bytes.Equal(got, want) {
			t.Fatalf("%s packet from the reference encoder\n got  %x\n want %x", c.name, got, want)
		}
		if p, err := ref.DecodeTS(want); err != nil || p.PID != c.pid || !p.PUSI {
			t.Fatalf("%s: reference decoder: %v %+v", c.name, err, p)
		}
		if _, err := ref.TablePacketSection(want[4:]); err != nil {
			t.Fatalf("%s: reference section check: %v", c.name, err)
		}
	}
	if got := ref.CRC32MPEG2([]byte("123456789")); got != 0x0376E6E7 {
		t.Fatalf("CRC-32/MPEG-2 check value %#x", got)
	}
	// PTS example: '0010' 33-bit value with marker bits; 0x1FFFFFFFF -> 2f ff ff ff ff
	w := &ref.BitWriter{}
	ref.WriteTimestamp33(w, 2, 0x1ffffffff)
	if !bytes.Equal(w.Out(), []byte{0x2f, 0xff, 0xff, 0xff, 0xff}) {
		t.Fatalf("timestamp encoding %x", w.Out())
	}
	w = &ref.BitWriter{}
	ref.WriteTimestamp33(w, 3, 0)
	if !bytes.Equal(w.Out(), []byte{0x31, 0x00, 0x01, 0x00, 0x01}) {
		t.Fatalf("timestamp encoding %x", w.Out())
	}
}

func TestRefTSCodec(t *testing.T) {
	rapid.Check(t, func(t *rapid.T) {
		m := gen.TSPacket(t, "p")
		enc := m.MustEncode()
		if len(enc) != 188 {
			t.Fatalf("%d bytes", len(enc))
		}
		d, err := ref.DecodeTS(enc)
		if err != nil {
			t.Fatalf("reference decoder rejects the reference encoding: %v\n%x", err, enc)
		}
		// the decoder fills Length fields; the encoder did too
		if g, w := obs.Canon(d), obs.Canon(m); g != w {
			t.Fatalf("reference decoder/encoder disagree:\n%s", obs.Diff(g, w))
		}
	})
}

func TestRefDescriptorWalk(t *testing.T) {
	rapid.Check(t, func(t *rapid.T) {
		ds := gen.Descriptors(t, 6, 800, "d")
		loop := ref.EncodeDescriptorLoop(ds)
		tags, bodies, n, err := ref.WalkDescriptorLoop(loop)
		if err != nil || n != len(loop) || len(tags) != len(ds) {
			t.Fatalf("walk of a reference-encoded loop: err=%v n=%d/%d tags=%d/%d", err, n, len(loop), len(tags), len(ds))
		}
		for i, d := range ds {
			if tags[i] != d.Tag || !bytes.Equal(bodies[i], ref.DescriptorBody(d)) {
				t.Fatalf("descriptor %d", i)
			}
		}
	})
}
