package checks

import (
	"bytes"
	"context"
	"fmt"
	"math/big"
	"testing"
	"time"

	astits "github.com/asticode/go-astits"
	"pgregory.net/rapid"

	"verifharness/conv"
	"verifharness/gen"
	"verifharness/obs"
	"verifharness/ref"
)

// C12 — PES headers and timestamps are decoded and encoded per ISO 13818-1.

// c12Decode checks one PES model through the demuxer. lengthMode: 0 exact, 1 zero (unbounded), 2 shorter, 3 longer.
// It returns an error description or "".
func c12Decode(p *ref.PES, pid uint16, sizes []int, trailer bool) string {
	enc := p.Encode()
	cc := uint8(7)
	pkts := ref.PacketizeUnit(pid, enc, &cc, ref.PktOpts{Sizes: sizes})
	var tr *ref.PES
	if trailer {
		pts := uint64(12345)
		tr = &ref.PES{StreamID: 0xc1, Length: -1, Opt: &ref.PESOpt{PTS: &pts}, Payload: []byte{1, 2, 3, 4, 5}}
		pkts = append(pkts, ref.PacketizeUnit(pid, tr.Encode(), &cc, ref.PktOpts{})...)
	}
	stream := ref.EncodeAll(pkts)
	res := demuxAll(stream)
	if !res.ended {
		return "no ErrNoMorePackets"
	}
	// expectation
	hs := p.HeaderSize()
	l := p.EncodedLength()
	var wantData []byte
	deliver := true
	switch {
	case l == 0:
		wantData = p.Payload
	case 6+l < hs:
		deliver = false // declared end before the payload starts
	case 6+l > len(enc):
		deliver = false // longer than available
	default:
		wantData = enc[hs : 6+l]
	}
	var want []*astits.PESData
	if deliver {
		want = append(want, conv.PESStruct(p, true, wantData, uint16(l)))
	}
	if tr != nil {
		want = append(want, conv.PESStruct(tr, true, tr.Payload, uint16(tr.EncodedLength())))
	}
	if len(res.items) != len(want) {
		return fmt.Sprintf("%d items delivered (errors: %s), want %d", len(res.items), errStrings(res.errs), len(want))
	}
	for i := range want {
		if res.items[i].PES == nil || res.items[i].PID != pid {
			return fmt.Sprintf("item %d is not a PES of PID %#x: %s", i, pid, obs.Trunc(obs.Canon(res.items[i]), 300))
		}
		if g, w := obs.Canon(res.items[i].PES), obs.Canon(want[i]); g != w {
			return fmt.Sprintf("PES %d differs: %s", i, obs.Diff(g, w))
		}
	}
	if deliver && len(res.errs) > 0 {
		return "unexpected errors: " + errStrings(res.errs)
	}
	return ""
}

func TestC12Decode(t *testing.T) {
	rec := obs.NewRecorder("C12", "decode", "rapid: PES models (stream ids with and without optional header; every flag combination except PTS_DTS '01' and pack header; timestamps/ES rate/copy info/CRC/sequence counter/P-STD at 0, all-ones, single-bit and random values; all trick mode bytes; private data; extension 2 length 0..127; header stuffing 0..32; PES_packet_length exact/0/shorter/longer) reference-encoded, packetised with random split points and demuxed: DemuxerData.PES must equal the model, payload per PES_packet_length, error or nothing for impossible lengths; non-trivial = optional header with >= 2 optional parts or a non-exact length; distinct by PES bytes")
	defer rec.Flush()
	rapid.Check(t, func(t *rapid.T) {
		p := &ref.PES{Length: -1}
		withHeader := !gen.Chance(t, 8, "nohdr")
		if withHeader {
			p.StreamID = gen.StreamIDWithHeader(t, "sid")
			p.Opt = gen.PESOpt(t, gen.PESOptOpts{}, "opt")
		} else {
			p.StreamID = rapid.SampledFrom([]uint8{0xbe, 0xbf}).Draw(t, "sid")
		}
		var n int
		switch rapid.IntRange(0, 4).Draw(t, "plk") {
		case 0:
			n = rapid.IntRange(0, 3).Draw(t, "pln")
		case 1:
			// around packet boundaries
			k := rapid.IntRange(1, 4).Draw(t, "k")
			n = k*184 - p.HeaderSize() + rapid.IntRange(-2, 2).Draw(t, "d")
			if n < 0 {
				n = 0
			}
		default:
			n = rapid.IntRange(0, 700).Draw(t, "pln")
		}
		p.Payload = gen.Bytes(t, n, "payload")
		mode := rapid.SampledFrom([]int{0, 0, 0, 1, 1, 2, 3}).Draw(t, "lenmode")
		exact := p.EncodedLength()
		switch mode {
		case 1:
			p.Length = 0
		case 2:
			if exact > 1 {
				p.Length = rapid.IntRange(1, exact-1).Draw(t, "shorter")
			}
		case 3:
			p.Length = exact + rapid.IntRange(1, 300).Draw(t, "longer")
			if p.Length > 0xffff {
				p.Length = 0xffff
			}
		}
		enc := p.Encode()
		// random split points
		var sizes []int
		if gen.Chance(t, 60, "split") {
			left := len(enc)
			for left > 0 {
				c := rapid.IntRange(1, 184).Draw(t, "chunk")
				if gen.Chance(t, 50, "full") {
					c = 184
				}
				if c > left {
					c = left
				}
				sizes = append(sizes, c)
				left -= c
			}
		}
		pid := uint16(rapid.IntRange(0x20, 0x1ffe).Draw(t, "pid"))
		if s := c12Decode(p, pid, sizes, gen.Chance(t, 50, "trailer")); s != "" {
			t.Fatalf("%s\nPES bytes: %x\nmodel: %s", s, enc, obs.Canon(p))
		}
		parts := 0
		if o := p.Opt; o != nil {
			for _, b := range []bool{o.PTS != nil, o.ESCR != nil, o.ESRate != nil, o.Trick != nil, o.CopyInfo != nil, o.CRC != nil, o.Ext != nil, o.Stuffing > 0} {
				if b {
					parts++
				}
			}
			if o.CRC != nil {
				rec.Class("previous_crc")
			}
			if o.Ext != nil && o.Ext.HasExt2 {
				rec.Class("extension2")
			}
			if o.Stuffing > 0 {
				rec.Class("header_stuffing")
			}
		} else {
			rec.Class("no_optional_header")
		}
		rec.Class([]string{"len_exact", "len_zero", "len_shorter", "len_longer"}[mode])
		h := obs.NewHasher()
		h.Bytes(enc)
		rec.Case(h.Sum(), parts >= 2 || mode != 0, func() interface{} {
			return map[string]interface{}{"pes_head": hexHead(enc, 48), "model": obs.Trunc(obs.Canon(p.Opt), 500), "length_mode": mode, "payload": n}
		})
	})
}

// TestC12Sweep enumerates the small domains of the header through the parser.
func TestC12Sweep(t *testing.T) {
	rec := obs.NewRecorder("C12", "sweep", "deterministic: all 256 trick mode bytes, all 65536 previous_PES_packet_CRC values, all 256 values of the two flag bytes' meaningful combinations (PTS_DTS '01' and pack header excluded), every single-bit/all-ones value of PTS, DTS, ESCR base/extension, ES rate, P-STD size, sequence counter fields; each decoded through the PES parser and compared with the model")
	defer rec.Flush()
	run := func(p *ref.PES) {
		enc := p.Encode()
		got, err := astits.VerifParsePESData(enc)
		if err != nil {
			t.Fatalf("parse error %v for %x", err, enc)
		}
		want := conv.PESStruct(p, true, p.Payload, uint16(p.EncodedLength()))
		if g, w := obs.Canon(got), obs.Canon(want); g != w {
			t.Fatalf("PES %x:\n%s", enc, obs.Diff(g, w))
		}
		rec.Enumerated(1)
	}
	pl := []byte{0xde, 0xad, 0xbe, 0xef}
	for b := 0; b < 256; b++ {
		v := uint8(b)
		run(&ref.PES{StreamID: 0xe0, Length: -1, Opt: &ref.PESOpt{Trick: &v}, Payload: pl})
	}
	for c := 0; c < 65536; c++ {
		v := uint16(c)
		run(&ref.PES{StreamID: 0xc0, Length: -1, Opt: &ref.PESOpt{CRC: &v}, Payload: pl})
	}
	vals := func(bits uint) []uint64 {
		v := []uint64{0, uint64(1)<<bits - 1}
		for k := uint(0); k < bits; k++ {
			v = append(v, uint64(1)<<k, (uint64(1)<<bits-1)&^(uint64(1)<<k))
		}
		return v
	}
	for _, x := range vals(33) {
		x := x
		y := ^x & (1<<33 - 1)
		run(&ref.PES{StreamID: 0xe0, Length: 0, Opt: &ref.PESOpt{PTS: &x}, Payload: pl})
		run(&ref.PES{StreamID: 0xe0, Length: -1, Opt: &ref.PESOpt{PTS: &y, DTS: &x}, Payload: pl})
		run(&ref.PES{StreamID: 0xbd, Length: -1, Opt: &ref.PESOpt{ESCR: &ref.PCR{Base: x, Ext: 0x0aa}}, Payload: pl})
	}
	for _, x := range vals(9) {
		run(&ref.PES{StreamID: 0xbd, Length: -1, Opt: &ref.PESOpt{ESCR: &ref.PCR{Base: 0x155555555, Ext: uint16(x)}}, Payload: pl})
	}
	for _, x := range vals(22) {
		v := uint32(x)
		run(&ref.PES{StreamID: 0xbd, Length: -1, Opt: &ref.PESOpt{ESRate: &v}, Payload: pl})
	}
	for _, x := range vals(13) {
		run(&ref.PES{StreamID: 0xbd, Length: -1, Opt: &ref.PESOpt{Ext: &ref.PESExt{PSTD: &ref.PSTD{Scale: uint8(x & 1), Size: uint16(x)}}}, Payload: pl})
	}
	for _, x := range vals(7) {
		v := uint8(x)
		run(&ref.PES{StreamID: 0xbd, Length: -1, Opt: &ref.PESOpt{CopyInfo: &v, Ext: &ref.PESExt{Seq: &ref.SeqCounter{Counter: uint8(x), MPEG1: uint8(x & 1), OrigStuff: uint8(x & 0x3f)}}}, Payload: pl})
	}
	// all combinations of the flag bytes: first byte low 6 bits, second byte (PTS_DTS in {0,2,3}, 6 flags), ext flags
	for b1 := 0; b1 < 64; b1++ {
		for f2 := 0; f2 < 64; f2++ {
			for _, pd := range []int{0, 2, 3} {
				o := &ref.PESOpt{Scrambling: uint8(b1 >> 4), Priority: b1&8 != 0, Alignment: b1&4 != 0, Copyright: b1&2 != 0, Original: b1&1 != 0}
				a, d := uint64(0x1234abcde&(1<<33-1)), uint64(0x0fedcba98)
				if pd >= 2 {
					o.PTS = &a
				}
				if pd == 3 {
					o.DTS = &d
				}
				if f2&0x20 != 0 {
					o.ESCR = &ref.PCR{Base: 0x1c0ffee11, Ext: 0x133}
				}
				if f2&0x10 != 0 {
					v := uint32(0x2aaaaa)
					o.ESRate = &v
				}
				if f2&8 != 0 {
					v := uint8(0x6b)
					o.Trick = &v
				}
				if f2&4 != 0 {
					v := uint8(0x55)
					o.CopyInfo = &v
				}
				if f2&2 != 0 {
					v := uint16(0xa55a)
					o.CRC = &v
				}
				if f2&1 != 0 {
					ef := (b1 + f2) % 16
					e := &ref.PESExt{}
					if ef&8 != 0 {
						e.HasPriv, e.Private = true, []byte("0123456789abcdef")
					}
					if ef&4 != 0 {
						e.Seq = &ref.SeqCounter{Counter: 0x55, MPEG1: 1, OrigStuff: 0x2a}
					}
					if ef&2 != 0 {
						e.PSTD = &ref.PSTD{Scale: 1, Size: 0x1555}
					}
					if ef&1 != 0 {
						e.HasExt2, e.Ext2 = true, []byte{9, 8, 7}
					}
					o.Ext = e
				}
				o.Stuffing = (b1 ^ f2) % 3
				run(&ref.PES{StreamID: 0xe0, Length: -1, Opt: o, Payload: pl})
			}
		}
	}
	// extension 2 of every length
	for n := 0; n <= 127; n++ {
		d := make([]byte, n)
		for i := range d {
			d[i] = byte(n + i)
		}
		run(&ref.PES{StreamID: 0xfd, Length: -1, Opt: &ref.PESOpt{Ext: &ref.PESExt{HasExt2: true, Ext2: d}}, Payload: pl})
	}
	rec.SetExhaustive(true)
	x := uint64(1) << 32
	rec.Sample(map[string]interface{}{"pes": fmt.Sprintf("%x", (&ref.PES{StreamID: 0xe0, Length: -1, Opt: &ref.PESOpt{PTS: &x}, Payload: pl}).Encode())})
}

// reassemble concatenates the payloads of the packets of one PID.
func reassemble(stream []byte, pid uint16) ([]byte, []*ref.TSPacket, error) {
	raw, ok := ref.SplitPackets(stream)
	if !ok {
		return nil, nil, fmt.Errorf("output is %d bytes, not a multiple of 188", len(stream))
	}
	var out []byte
	var ps []*ref.TSPacket
	for i, r := range raw {
		p, err := ref.DecodeTS(r)
		if err != nil {
			return nil, nil, fmt.Errorf("packet %d: %v", i, err)
		}
		if p.PID == pid {
			out = append(out, p.Payload...)
			ps = append(ps, p)
		}
	}
	return out, ps, nil
}

func TestC12Encode(t *testing.T) {
	rec := obs.NewRecorder("C12", "encode", "rapid: PES headers from the writer's supported subset (no previous CRC, no pack header, no header stuffing) written with Muxer.WriteData (30% of the headers without extension carry extension sub-field flags and values in the struct, which must not reach the header or its lengths); the PES bytes reassembled from the output with the independent TS decoder must equal the reference encoding; PES_packet_length must be the actual length, or 0 where ISO allows (video stream ids 0xE0-0xEF and 0xFD) or demands it (> 65535); non-trivial = >= 2 optional parts; distinct by reference PES bytes")
	defer rec.Flush()
	rapid.Check(t, func(t *rapid.T) {
		p := &ref.PES{Length: -1}
		p.StreamID = gen.StreamIDWithHeader(t, "sid")
		p.Opt = gen.PESOpt(t, gen.PESOptOpts{Writable: true, MaxSize: 170}, "opt")
		stray := false
		if gen.Chance(t, 8, "nohdr") {
			// stream ids without optional header; half of the time a header struct is supplied anyway and must be ignored
			p.StreamID = rapid.SampledFrom([]uint8{0xbe, 0xbf}).Draw(t, "sidnh")
			p.Opt = nil
			stray = gen.Bool(t, "stray")
			rec.Class("stream_id_without_optional_header")
		}
		var n int
		switch rapid.IntRange(0, 5).Draw(t, "plk") {
		case 0:
			n = rapid.IntRange(1, 4).Draw(t, "pln")
		case 1:
			k := rapid.IntRange(1, 4).Draw(t, "k")
			n = k*184 - p.HeaderSize() + rapid.IntRange(-2, 2).Draw(t, "d")
		case 2:
			// around the 16-bit limit of PES_packet_length
			n = 65535 - (p.HeaderSize() - 6) + rapid.IntRange(-2, 3).Draw(t, "d")
		default:
			n = rapid.IntRange(1, 1000).Draw(t, "pln")
		}
		if n < 1 {
			n = 1
		}
		p.Payload = gen.Bytes(t, n, "payload")
		var buf cappedBuffer
		m := astits.NewMuxer(context.Background(), &buf)
		pid := uint16(rapid.IntRange(0x20, 0x1ffe).Draw(t, "pid"))
		if pid == 0x1000 {
			pid = 0x1001
		}
		if err := m.AddElementaryStream(astits.PMTElementaryStream{ElementaryPID: pid, StreamType: astits.StreamTypeMPEG2Video}); err != nil {
			t.Fatal(err)
		}
		m.SetPCRPID(pid)
		d := conv.PESStruct(p, false, p.Payload, 0)
		if stray {
			d.Header.OptionalHeader = &astits.PESOptionalHeader{MarkerBits: 2, PTSDTSIndicator: 3, PTS: &astits.ClockReference{Base: 5}, DTS: &astits.ClockReference{Base: 4}}
		}
		strayExt := false
		if p.Opt != nil && p.Opt.Ext == nil && gen.Chance(t, 30, "strayext") {
			// PES_extension_flag is 0: whatever the flags and values of the extension sub-fields in the struct, none is
			// in the header, and PES_header_data_length / PES_packet_length must say so
			strayExt = true
			oh := d.Header.OptionalHeader
			k := rapid.IntRange(1, 15).Draw(t, "strayextflags")
			if k&1 != 0 {
				oh.HasPrivateData, oh.PrivateData = true, gen.Bytes(t, 16, "strayprivate")
			}
			if k&2 != 0 {
				oh.HasProgramPacketSequenceCounter, oh.PacketSequenceCounter = true, 5
			}
			if k&4 != 0 {
				oh.HasPSTDBuffer, oh.PSTDBufferSize = true, 77
			}
			if k&8 != 0 {
				oh.HasExtension2, oh.Extension2Data = true, gen.Bytes(t, rapid.IntRange(0, 20).Draw(t, "strayext2len"), "strayext2")
			}
			rec.Class("extension_subfield_flags_without_extension_flag")
		}
		if _, err := m.WriteData(&astits.MuxerData{PID: pid, PES: d}); err != nil {
			t.Fatalf("WriteData error: %v\nmodel %s", err, obs.Canon(p))
		}
		got, _, err := reassemble(buf.Bytes(), pid)
		if err != nil {
			t.Fatal(err)
		}
		exact := p.EncodedLength()
		want := p.Encode2(exact)
		if len(got) != len(want) || len(got) < 6 || !bytes.Equal(got[:4], want[:4]) || !bytes.Equal(got[6:], want[6:]) {
			t.Fatalf("PES bytes written %s\nreference         %s\nstream id %#x, optional header struct supplied although the id has none: %v, extension sub-field flags set without the extension flag: %v\nmodel %s", hexHead(got, 64), hexHead(want, 64), p.StreamID, stray, strayExt, obs.Canon(p.Opt))
		}
		gl := int(got[4])<<8 | int(got[5])
		videoID := p.StreamID >= 0xe0 && p.StreamID <= 0xef || p.StreamID == 0xfd
		switch {
		case exact > 0xffff:
			if gl != 0 {
				t.Fatalf("PES_packet_length %d written for a packet of %d bytes after the field (must be 0)", gl, exact)
			}
			rec.Class("over_65535")
		case gl == exact:
		case gl == 0 && videoID:
		default:
			t.Fatalf("PES_packet_length %d written, actual %d (stream id %#x)", gl, exact, p.StreamID)
		}
		parts := 0
		if o := p.Opt; o != nil {
			for _, b := range []bool{o.PTS != nil, o.ESCR != nil, o.ESRate != nil, o.Trick != nil, o.CopyInfo != nil, o.Ext != nil} {
				if b {
					parts++
				}
			}
		}
		h := obs.NewHasher()
		h.Bytes(want[:min(len(want), 400)])
		h.Int(int64(len(want)))
		rec.Case(h.Sum(), parts >= 2, func() interface{} {
			return map[string]interface{}{"stream_id": p.StreamID, "pes_head": hexHead(want, 48), "payload": n}
		})
	})
}

func TestC12Clock(t *testing.T) {
	rec := obs.NewRecorder("C12", "clock", "ClockReference.Duration() for base in [0,2^33) and extension in [0,512) (rapid, biased to 0, all-ones, single bits) plus every single-bit base: must equal base/90000 s + extension/27000000 s truncated to nanoseconds (either the truncated exact sum or the sum of the two truncated terms), computed with math/big; Time() must be the Unix epoch plus that duration")
	defer rec.Flush()
	check := func(base, ext int64) string {
		got := astits.ClockReference{Base: base, Extension: ext}.Duration()
		// exact: base*1e9/90000 + ext*1e9/27000000 = (base*300 + ext) * 1e9 / 27e6 = (base*300+ext)*1000/27
		num := new(big.Int).Add(new(big.Int).Mul(big.NewInt(base), big.NewInt(300)), big.NewInt(ext))
		num.Mul(num, big.NewInt(1000))
		floorSum := new(big.Int).Div(num, big.NewInt(27))
		t1 := new(big.Int).Div(new(big.Int).Mul(big.NewInt(base), big.NewInt(1000000000)), big.NewInt(90000))
		t2 := new(big.Int).Div(new(big.Int).Mul(big.NewInt(ext), big.NewInt(1000000000)), big.NewInt(27000000))
		termSum := new(big.Int).Add(t1, t2)
		g := big.NewInt(int64(got))
		if g.Cmp(floorSum) != 0 && g.Cmp(termSum) != 0 {
			return fmt.Sprintf("ClockReference{%d,%d}.Duration() = %d ns, want %s or %s", base, ext, int64(got), floorSum, termSum)
		}
		tm := astits.ClockReference{Base: base, Extension: ext}.Time()
		if !tm.Equal(time.Unix(0, int64(got))) {
			return fmt.Sprintf("ClockReference{%d,%d}.Time() = %v, Duration %v", base, ext, tm, got)
		}
		return ""
	}
	for k := uint(0); k < 33; k++ {
		for _, e := range []int64{0, 1, 299, 511} {
			if s := check(int64(1)<<k, e); s != "" {
				t.Fatal(s)
			}
			if s := check((int64(1)<<33-1)&^(int64(1)<<k), e); s != "" {
				t.Fatal(s)
			}
			rec.Enumerated(2)
		}
	}
	rapid.Check(t, func(t *rapid.T) {
		base := int64(gen.EdgeU(t, 33, "base"))
		ext := int64(gen.EdgeU(t, 9, "ext"))
		if s := check(base, ext); s != "" {
			t.Fatal(s)
		}
		h := obs.NewHasher()
		h.Int(base)
		h.Int(ext)
		rec.Case(h.Sum(), base > 1<<31, func() interface{} {
			return map[string]interface{}{"base": base, "extension": ext, "duration_ns": int64(astits.ClockReference{Base: base, Extension: ext}.Duration())}
		})
	})
}
