package gen

import (
	"time"

	astits "github.com/asticode/go-astits"
	"pgregory.net/rapid"

	"verifharness/ref"
)

func u16(t *rapid.T, label string) uint16 { return uint16(EdgeU(t, 16, label)) }
func u13(t *rapid.T, label string) uint16 { return uint16(EdgeU(t, 13, label)) }

// count draws a loop count in [0,max] with bias to 0, 1 and max.
func count(t *rapid.T, max int, label string) int { return lenIn(t, max, label) }

// descLoopSize returns the encoded size of a descriptor list (without its length field).
func descLoopSize(ds []*astits.Descriptor) int { return len(ref.EncodeDescriptors(ds)) }

// PAT draws a PAT of 0..maxPrograms programs.
func PAT(t *rapid.T, maxPrograms int, label string) *astits.PATData {
	d := &astits.PATData{TransportStreamID: u16(t, label+"_tsid")}
	n := count(t, maxPrograms, label+"_n")
	for i := 0; i < n; i++ {
		d.Programs = append(d.Programs, &astits.PATProgram{ProgramNumber: u16(t, label+"_pn"), ProgramMapID: u13(t, label+"_pid")})
	}
	return d
}

// PMT draws a PMT whose body (PCR PID .. last stream) takes at most budget bytes.
func PMT(t *rapid.T, budget, maxStreams, maxDescs int, label string) *astits.PMTData {
	d := &astits.PMTData{ProgramNumber: u16(t, label+"_pn"), PCRPID: u13(t, label+"_pcr")}
	left := budget - 4
	d.ProgramDescriptors = Descriptors(t, maxDescs, min(left, 300), label+"_pd")
	left -= descLoopSize(d.ProgramDescriptors)
	n := count(t, maxStreams, label+"_n")
	for i := 0; i < n && left >= 5; i++ {
		left -= 5
		es := &astits.PMTElementaryStream{StreamType: astits.StreamType(EdgeU(t, 8, label+"_st")), ElementaryPID: u13(t, label+"_epid")}
		es.ElementaryStreamDescriptors = Descriptors(t, maxDescs, min(left, 200), label+"_ed")
		left -= descLoopSize(es.ElementaryStreamDescriptors)
		d.ElementaryStreams = append(d.ElementaryStreams, es)
	}
	return d
}

// SDT draws an SDT whose body takes at most budget bytes.
func SDT(t *rapid.T, budget, maxServices, maxDescs int, label string) *astits.SDTData {
	d := &astits.SDTData{TransportStreamID: u16(t, label+"_tsid"), OriginalNetworkID: u16(t, label+"_onid")}
	left := budget - 3
	n := count(t, maxServices, label+"_n")
	for i := 0; i < n && left >= 5; i++ {
		left -= 5
		s := &astits.SDTDataService{ServiceID: u16(t, label+"_sid"), HasEITSchedule: Bool(t, label+"_sch"), HasEITPresentFollowing: Bool(t, label+"_pf"),
			RunningStatus: uint8(EdgeU(t, 3, label+"_rs")), HasFreeCSAMode: Bool(t, label+"_ca")}
		s.Descriptors = Descriptors(t, maxDescs, min(left, 300), label+"_d")
		left -= descLoopSize(s.Descriptors)
		d.Services = append(d.Services, s)
	}
	return d
}

// NIT draws a NIT whose body takes at most budget bytes.
func NIT(t *rapid.T, budget, maxTS, maxDescs int, label string) *astits.NITData {
	d := &astits.NITData{NetworkID: u16(t, label+"_nid")}
	left := budget - 4
	d.NetworkDescriptors = Descriptors(t, maxDescs, min(left, 300), label+"_nd")
	left -= descLoopSize(d.NetworkDescriptors)
	n := count(t, maxTS, label+"_n")
	for i := 0; i < n && left >= 6; i++ {
		left -= 6
		ts := &astits.NITDataTransportStream{TransportStreamID: u16(t, label+"_tsid"), OriginalNetworkID: u16(t, label+"_onid")}
		ts.TransportDescriptors = Descriptors(t, maxDescs, min(left, 300), label+"_td")
		left -= descLoopSize(ts.TransportDescriptors)
		d.TransportStreams = append(d.TransportStreams, ts)
	}
	return d
}

// Duration draws a BCD-representable duration hh:mm:ss (hh 0..99).
func Duration(t *rapid.T, label string) time.Duration {
	h := rapid.IntRange(0, 99).Draw(t, label+"_h")
	m := rapid.IntRange(0, 59).Draw(t, label+"_m")
	s := rapid.IntRange(0, 59).Draw(t, label+"_s")
	return time.Duration(h)*time.Hour + time.Duration(m)*time.Minute + time.Duration(s)*time.Second
}

// EIT draws an EIT whose body takes at most budget bytes.
func EIT(t *rapid.T, budget, maxEvents, maxDescs int, label string) *astits.EITData {
	d := &astits.EITData{ServiceID: u16(t, label+"_sid"), TransportStreamID: u16(t, label+"_tsid"), OriginalNetworkID: u16(t, label+"_onid"),
		SegmentLastSectionNumber: uint8(EdgeU(t, 8, label+"_slsn")), LastTableID: uint8(EdgeU(t, 8, label+"_ltid"))}
	left := budget - 6
	n := count(t, maxEvents, label+"_n")
	for i := 0; i < n && left >= 12; i++ {
		left -= 12
		e := &astits.EITDataEvent{EventID: u16(t, label+"_eid"), StartTime: DVBTime(t, label+"_start"), Duration: Duration(t, label+"_dur"),
			RunningStatus: uint8(EdgeU(t, 3, label+"_rs")), HasFreeCSAMode: Bool(t, label+"_ca")}
		cap, nd := 400, maxDescs
		if Chance(t, 10, label+"_bigloop") {
			cap, nd = 3000, 24 // descriptor loops beyond 1023 bytes exist only in EIT
		}
		e.Descriptors = Descriptors(t, nd, min(left, cap), label+"_d")
		left -= descLoopSize(e.Descriptors)
		d.Events = append(d.Events, e)
	}
	return d
}

// TOT draws a TOT.
func TOT(t *rapid.T, maxDescs int, label string) *astits.TOTData {
	return &astits.TOTData{UTCTime: DVBTime(t, label+"_utc"), Descriptors: Descriptors(t, maxDescs, 600, label+"_d")}
}

// Table kinds.
const (
	KindPAT = iota
	KindPMT
	KindSDT
	KindNIT
	KindEIT
	KindTOT
)

// SectionOpts bounds the generated sections.
type SectionOpts struct {
	MaxBody  int // maximum size of the table specific body (0 = the standard's limit)
	MaxItems int // loop items (0 = default per table)
	MaxDescs int // descriptors per loop (0 = 4)
}

// Section draws a section of the given kind with generic header fields.
func Section(t *rapid.T, kind int, o SectionOpts, label string) *ref.Section {
	s := &ref.Section{Version: uint8(EdgeU(t, 5, label+"_ver")), CurrentNext: Bool(t, label+"_cn"), Number: uint8(EdgeU(t, 8, label+"_num")), Last: uint8(EdgeU(t, 8, label+"_last")),
		Private: Bool(t, label+"_priv")}
	maxDescs := o.MaxDescs
	if maxDescs == 0 {
		maxDescs = 4
	}
	limit := 1021 - 9 // section_length <= 1021: syntax header 5 + CRC 4
	if kind == KindEIT {
		limit = 4093 - 9
	}
	if kind == KindTOT {
		limit = 1021 - 4
	}
	if o.MaxBody > 0 && o.MaxBody < limit {
		limit = o.MaxBody
	}
	items := func(def int) int {
		if o.MaxItems > 0 {
			return o.MaxItems
		}
		return def
	}
	switch kind {
	case KindPAT:
		s.TableID = 0x00
		s.PAT = PAT(t, min(items(250), limit/4), label+"_pat")
	case KindPMT:
		s.TableID = 0x02
		s.PMT = PMT(t, limit, items(150), maxDescs, label+"_pmt")
	case KindSDT:
		s.TableID = rapid.SampledFrom([]uint8{0x42, 0x46}).Draw(t, label+"_tid")
		s.SDT = SDT(t, limit, items(60), maxDescs, label+"_sdt")
	case KindNIT:
		s.TableID = rapid.SampledFrom([]uint8{0x40, 0x41}).Draw(t, label+"_tid")
		s.NIT = NIT(t, limit, items(60), maxDescs, label+"_nit")
	case KindEIT:
		s.TableID = uint8(rapid.IntRange(0x4e, 0x6f).Draw(t, label+"_tid"))
		switch Uniform(t, 4, label+"_tidk") {
		case 0:
			s.TableID = 0x4e
		case 1:
			s.TableID = 0x6f
		}
		s.EIT = EIT(t, limit, items(40), maxDescs, label+"_eit")
	case KindTOT:
		s.TableID = 0x73
		s.TOT = TOT(t, maxDescs, label+"_tot")
		s.Version, s.CurrentNext, s.Number, s.Last = 0, false, 0, 0
	}
	return s
}

// StandardPID returns the PID a table kind rides on; PMT PIDs are chosen by the caller.
func StandardPID(kind int) uint16 {
	switch kind {
	case KindPAT:
		return 0x00
	case KindNIT:
		return 0x10
	case KindSDT:
		return 0x11
	case KindEIT:
		return 0x12
	case KindTOT:
		return 0x14
	}
	return 0
}
