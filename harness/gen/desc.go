package gen

import (
	"time"

	astits "github.com/asticode/go-astits"
	"pgregory.net/rapid"

	"verifharness/ref"
)

// TypedTags are the 23 descriptor tags the library decodes into typed structs.
var TypedTags = []uint8{0x6a, 0x28, 0x50, 0x54, 0x06, 0x7a, 0x4e, 0x7f, 0x0a, 0x58, 0x0e, 0x40, 0x55, 0x0f, 0x5f, 0x05,
	0x48, 0x4d, 0x52, 0x59, 0x56, 0x45, 0x46}

// UnknownTags are tags below 0x80 (and 0xff) without a typed decoder.
var UnknownTags = func() []uint8 {
	typed := map[uint8]bool{}
	for _, t := range TypedTags {
		typed[t] = true
	}
	var o []uint8
	for t := 0; t < 0x80; t++ {
		if !typed[uint8(t)] {
			o = append(o, uint8(t))
		}
	}
	return append(o, 0xff)
}()

// lenIn draws a length in [0,max] with bias to 0, 1, max.
func lenIn(t *rapid.T, max int, label string) int {
	if max <= 0 {
		return 0
	}
	switch Uniform(t, 6, label+"_k") {
	case 0:
		return 0
	case 1:
		return max
	case 2:
		return 1
	default:
		return rapid.IntRange(0, max).Draw(t, label)
	}
}

func lang(t *rapid.T, label string) []byte { return Bytes(t, 3, label) }

// DVBTime draws a UTC time with whole seconds inside the MJD range 15079..65535.
func DVBTime(t *rapid.T, label string) time.Time {
	var mjd int
	switch Uniform(t, 5, label+"_k") {
	case 0:
		mjd = 15079
	case 1:
		mjd = 65535
	case 2:
		// leap days and month ends are where the Annex C formulas are fragile
		y := rapid.IntRange(1901, 2037).Draw(t, label+"_y")
		mo := rapid.SampledFrom([]int{1, 2, 2, 3, 12}).Draw(t, label+"_m")
		d := rapid.SampledFrom([]int{1, 28, 29, 30, 31}).Draw(t, label+"_d")
		mjd = ref.MJDFromCivil(y, mo, d)
		if mjd < 15079 || mjd > 65535 {
			mjd = 51603
		}
	default:
		mjd = rapid.IntRange(15079, 65535).Draw(t, label+"_mjd")
	}
	sod := rapid.IntRange(0, 86399).Draw(t, label+"_sod")
	switch Uniform(t, 6, label+"_sk") {
	case 0:
		sod = 0
	case 1:
		sod = 86399
	}
	return time.Unix(ref.UnixFromDVB(mjd, sod), 0).UTC()
}

func hm(t *rapid.T, label string) time.Duration {
	h := rapid.IntRange(0, 23).Draw(t, label+"_h")
	m := rapid.IntRange(0, 59).Draw(t, label+"_m")
	return time.Duration(h)*time.Hour + time.Duration(m)*time.Minute
}

// DescriptorOfTag draws a descriptor with the given tag whose body is at most maxBody (<= 255) bytes; when even the
// smallest body of the tag does not fit it returns nil. Length is set to the body length.
func DescriptorOfTag(t *rapid.T, tag uint8, maxBody int, label string) *astits.Descriptor {
	if maxBody > 255 {
		maxBody = 255
	}
	d := &astits.Descriptor{Tag: tag}
	u8 := func(l string) uint8 { return uint8(EdgeU(t, 8, label+l)) }
	switch {
	case tag >= 0x80 && tag <= 0xfe:
		d.UserDefined = Bytes(t, lenIn(t, maxBody, label+"_n"), label+"_ud")
	case tag == 0x6a:
		if maxBody < 1 {
			return nil
		}
		x := &astits.DescriptorAC3{}
		left := maxBody - 1
		fl := rapid.IntRange(0, 15).Draw(t, label+"_fl")
		if fl&8 != 0 && left > 0 {
			x.HasComponentType, x.ComponentType = true, u8("_ct")
			left--
		}
		if fl&4 != 0 && left > 0 {
			x.HasBSID, x.BSID = true, u8("_bsid")
			left--
		}
		if fl&2 != 0 && left > 0 {
			x.HasMainID, x.MainID = true, u8("_main")
			left--
		}
		if fl&1 != 0 && left > 0 {
			x.HasASVC, x.ASVC = true, u8("_asvc")
			left--
		}
		x.AdditionalInfo = Bytes(t, lenIn(t, min(left, 20), label+"_ain"), label+"_ai")
		d.AC3 = x
	case tag == 0x28:
		if maxBody < 4 {
			return nil
		}
		d.AVCVideo = &astits.DescriptorAVCVideo{ProfileIDC: u8("_p"), ConstraintSet0Flag: Bool(t, label+"_c0"), ConstraintSet1Flag: Bool(t, label+"_c1"),
			ConstraintSet2Flag: Bool(t, label+"_c2"), CompatibleFlags: uint8(EdgeU(t, 5, label+"_cf")), LevelIDC: u8("_l"),
			AVCStillPresent: Bool(t, label+"_sp"), AVC24HourPictureFlag: Bool(t, label+"_24")}
	case tag == 0x50:
		if maxBody < 6 {
			return nil
		}
		d.Component = &astits.DescriptorComponent{StreamContentExt: uint8(EdgeU(t, 4, label+"_sce")), StreamContent: uint8(EdgeU(t, 4, label+"_sc")),
			ComponentType: u8("_ct"), ComponentTag: u8("_tag"), ISO639LanguageCode: lang(t, label+"_lang"),
			Text: Bytes(t, lenIn(t, min(maxBody-6, 40), label+"_tn"), label+"_text")}
	case tag == 0x54:
		x := &astits.DescriptorContent{}
		n := lenIn(t, min(maxBody/2, 6), label+"_n")
		for i := 0; i < n; i++ {
			x.Items = append(x.Items, &astits.DescriptorContentItem{ContentNibbleLevel1: uint8(EdgeU(t, 4, label+"_n1")), ContentNibbleLevel2: uint8(EdgeU(t, 4, label+"_n2")), UserByte: u8("_ub")})
		}
		if n == 0 {
			return nil // an empty body decodes to a nil Content pointer: not a typed value
		}
		d.Content = x
	case tag == 0x06:
		if maxBody < 1 {
			return nil
		}
		d.DataStreamAlignment = &astits.DescriptorDataStreamAlignment{Type: u8("_t")}
	case tag == 0x7a:
		if maxBody < 1 {
			return nil
		}
		x := &astits.DescriptorEnhancedAC3{MixInfoExists: Bool(t, label+"_mix")}
		left := maxBody - 1
		fl := rapid.IntRange(0, 127).Draw(t, label+"_fl")
		set := func(bit int, has *bool, v *uint8, l string) {
			if fl&bit != 0 && left > 0 {
				*has, *v = true, u8(l)
				left--
			}
		}
		set(64, &x.HasComponentType, &x.ComponentType, "_ct")
		set(32, &x.HasBSID, &x.BSID, "_bsid")
		set(16, &x.HasMainID, &x.MainID, "_main")
		set(8, &x.HasASVC, &x.ASVC, "_asvc")
		set(4, &x.HasSubStream1, &x.SubStream1, "_s1")
		set(2, &x.HasSubStream2, &x.SubStream2, "_s2")
		set(1, &x.HasSubStream3, &x.SubStream3, "_s3")
		x.AdditionalInfo = Bytes(t, lenIn(t, min(left, 20), label+"_ain"), label+"_ai")
		d.EnhancedAC3 = x
	case tag == 0x4e:
		if maxBody < 6 {
			return nil
		}
		x := &astits.DescriptorExtendedEvent{Number: uint8(EdgeU(t, 4, label+"_num")), LastDescriptorNumber: uint8(EdgeU(t, 4, label+"_last")), ISO639LanguageCode: lang(t, label+"_lang")}
		left := maxBody - 6
		n := Uniform(t, 4, label+"_items")
		for i := 0; i < n && left >= 2; i++ {
			left -= 2
			dn := lenIn(t, min(left, 30), label+"_dn")
			left -= dn
			cn := lenIn(t, min(left, 30), label+"_cn")
			left -= cn
			x.Items = append(x.Items, &astits.DescriptorExtendedEventItem{Description: Bytes(t, dn, label+"_desc"), Content: Bytes(t, cn, label+"_cont")})
		}
		x.Text = Bytes(t, lenIn(t, min(left, 60), label+"_tn"), label+"_text")
		d.ExtendedEvent = x
	case tag == 0x7f:
		if maxBody < 1 {
			return nil
		}
		x := &astits.DescriptorExtension{}
		if Bool(t, label+"_supp") && maxBody >= 2 {
			x.Tag = 0x06
			s := &astits.DescriptorExtensionSupplementaryAudio{MixType: Bool(t, label+"_mix"), EditorialClassification: uint8(EdgeU(t, 5, label+"_ec"))}
			left := maxBody - 2
			if Bool(t, label+"_haslang") && left >= 3 {
				s.HasLanguageCode, s.LanguageCode = true, lang(t, label+"_lang")
				left -= 3
			}
			s.PrivateData = Bytes(t, lenIn(t, min(left, 20), label+"_pn"), label+"_pd")
			x.SupplementaryAudio = s
		} else {
			x.Tag = uint8(rapid.IntRange(0, 255).Draw(t, label+"_xtag"))
			if x.Tag == 0x06 {
				x.Tag = 0x07
			}
			b := Bytes(t, lenIn(t, min(maxBody-1, 30), label+"_un"), label+"_unk")
			x.Unknown = &b
		}
		d.Extension = x
	case tag == 0x0a:
		if maxBody < 4 {
			return nil
		}
		d.ISO639LanguageAndAudioType = &astits.DescriptorISO639LanguageAndAudioType{Language: lang(t, label+"_lang"), Type: u8("_t")}
	case tag == 0x58:
		n := lenIn(t, min(maxBody/13, 3), label+"_n")
		if n == 0 {
			return nil
		}
		x := &astits.DescriptorLocalTimeOffset{}
		for i := 0; i < n; i++ {
			x.Items = append(x.Items, &astits.DescriptorLocalTimeOffsetItem{CountryCode: lang(t, label+"_cc"), CountryRegionID: uint8(EdgeU(t, 6, label+"_reg")),
				LocalTimeOffsetPolarity: Bool(t, label+"_pol"), LocalTimeOffset: hm(t, label+"_lto"), TimeOfChange: DVBTime(t, label+"_toc"), NextTimeOffset: hm(t, label+"_nto")})
		}
		d.LocalTimeOffset = x
	case tag == 0x0e:
		if maxBody < 3 {
			return nil
		}
		d.MaximumBitrate = &astits.DescriptorMaximumBitrate{Bitrate: uint32(EdgeU(t, 22, label+"_br")) * 50}
	case tag == 0x40:
		n := lenIn(t, min(maxBody, 40), label+"_n")
		if n == 0 {
			return nil
		}
		d.NetworkName = &astits.DescriptorNetworkName{Name: Bytes(t, n, label+"_name")}
	case tag == 0x55:
		n := lenIn(t, min(maxBody/4, 4), label+"_n")
		if n == 0 {
			return nil
		}
		x := &astits.DescriptorParentalRating{}
		for i := 0; i < n; i++ {
			x.Items = append(x.Items, &astits.DescriptorParentalRatingItem{CountryCode: lang(t, label+"_cc"), Rating: u8("_r")})
		}
		d.ParentalRating = x
	case tag == 0x0f:
		if maxBody < 4 {
			return nil
		}
		d.PrivateDataIndicator = &astits.DescriptorPrivateDataIndicator{Indicator: uint32(EdgeU(t, 32, label+"_v"))}
	case tag == 0x5f:
		if maxBody < 4 {
			return nil
		}
		d.PrivateDataSpecifier = &astits.DescriptorPrivateDataSpecifier{Specifier: uint32(EdgeU(t, 32, label+"_v"))}
	case tag == 0x05:
		if maxBody < 4 {
			return nil
		}
		d.Registration = &astits.DescriptorRegistration{FormatIdentifier: uint32(EdgeU(t, 32, label+"_v")), AdditionalIdentificationInfo: Bytes(t, lenIn(t, min(maxBody-4, 20), label+"_n"), label+"_info")}
	case tag == 0x48:
		if maxBody < 3 {
			return nil
		}
		left := maxBody - 3
		pn := lenIn(t, min(left, 30), label+"_pn")
		nn := lenIn(t, min(left-pn, 30), label+"_nn")
		d.Service = &astits.DescriptorService{Type: u8("_t"), Provider: Bytes(t, pn, label+"_prov"), Name: Bytes(t, nn, label+"_name")}
	case tag == 0x4d:
		if maxBody < 5 {
			return nil
		}
		left := maxBody - 5
		en := lenIn(t, min(left, 40), label+"_en")
		tn := lenIn(t, min(left-en, 60), label+"_tn")
		d.ShortEvent = &astits.DescriptorShortEvent{Language: lang(t, label+"_lang"), EventName: Bytes(t, en, label+"_ev"), Text: Bytes(t, tn, label+"_text")}
	case tag == 0x52:
		if maxBody < 1 {
			return nil
		}
		d.StreamIdentifier = &astits.DescriptorStreamIdentifier{ComponentTag: u8("_t")}
	case tag == 0x59:
		n := lenIn(t, min(maxBody/8, 3), label+"_n")
		if n == 0 {
			return nil
		}
		x := &astits.DescriptorSubtitling{}
		for i := 0; i < n; i++ {
			x.Items = append(x.Items, &astits.DescriptorSubtitlingItem{Language: lang(t, label+"_lang"), Type: u8("_t"), CompositionPageID: uint16(EdgeU(t, 16, label+"_cp")), AncillaryPageID: uint16(EdgeU(t, 16, label+"_ap"))})
		}
		d.Subtitling = x
	case tag == 0x56 || tag == 0x46:
		n := lenIn(t, min(maxBody/5, 4), label+"_n")
		if n == 0 {
			return nil
		}
		x := &astits.DescriptorTeletext{}
		for i := 0; i < n; i++ {
			x.Items = append(x.Items, &astits.DescriptorTeletextItem{Language: lang(t, label+"_lang"), Type: uint8(EdgeU(t, 5, label+"_t")), Magazine: uint8(EdgeU(t, 3, label+"_mag")), Page: uint8(rapid.IntRange(0, 99).Draw(t, label+"_page"))})
		}
		if tag == 0x56 {
			d.Teletext = x
		} else {
			d.VBITeletext = x
		}
	case tag == 0x45:
		x := &astits.DescriptorVBIData{}
		left := maxBody
		n := 1 + Uniform(t, 3, label+"_n")
		for i := 0; i < n && left >= 3; i++ {
			s := &astits.DescriptorVBIDataService{}
			if Chance(t, 80, label+"_known") {
				s.DataServiceID = rapid.SampledFrom([]uint8{1, 2, 4, 5, 6, 7}).Draw(t, label+"_sid")
				ln := lenIn(t, min(left-2, 6), label+"_ln")
				for j := 0; j < ln; j++ {
					s.Descriptors = append(s.Descriptors, &astits.DescriptorVBIDataDescriptor{FieldParity: Bool(t, label+"_fp"), LineOffset: uint8(EdgeU(t, 5, label+"_lo"))})
				}
				left -= 2 + ln
			} else {
				s.DataServiceID = rapid.SampledFrom([]uint8{0, 3, 8, 0x80, 0xff}).Draw(t, label+"_sid")
				left -= 3
			}
			x.Services = append(x.Services, s)
		}
		if len(x.Services) == 0 {
			return nil
		}
		d.VBIData = x
	default:
		n := lenIn(t, min(maxBody, 40), label+"_n")
		if n == 0 {
			return nil
		}
		d.Unknown = &astits.DescriptorUnknown{Tag: tag, Content: Bytes(t, n, label+"_unk")}
	}
	d.Length = uint8(len(ref.DescriptorBody(d)))
	if d.Length == 0 {
		// a zero-length descriptor decodes to a bare {Tag, Length} struct
		return &astits.Descriptor{Tag: tag}
	}
	return d
}

// AnyTag draws a descriptor tag: typed, unknown or user defined.
func AnyTag(t *rapid.T, label string) uint8 {
	switch Uniform(t, 8, label+"_k") {
	case 0:
		return rapid.SampledFrom(UnknownTags).Draw(t, label+"_unk")
	case 1:
		return uint8(rapid.IntRange(0x80, 0xfe).Draw(t, label+"_ud"))
	default:
		return rapid.SampledFrom(TypedTags).Draw(t, label)
	}
}

// Descriptor draws any descriptor whose encoding (tag and length included) takes at most budget bytes, or nil.
func Descriptor(t *rapid.T, budget int, label string) *astits.Descriptor {
	if budget < 2 {
		return nil
	}
	for try := 0; try < 3; try++ {
		if d := DescriptorOfTag(t, AnyTag(t, label+"_tag"), budget-2, label); d != nil {
			return d
		}
	}
	// zero-length descriptor always fits
	return &astits.Descriptor{Tag: AnyTag(t, label+"_tag0")}
}

// Descriptors draws a loop of 0..maxN descriptors taking at most budget bytes (loop length field not included).
func Descriptors(t *rapid.T, maxN, budget int, label string) []*astits.Descriptor {
	var ds []*astits.Descriptor
	n := lenIn(t, maxN, label+"_count")
	for i := 0; i < n; i++ {
		d := Descriptor(t, budget, label)
		if d == nil {
			break
		}
		budget -= 2 + len(ref.DescriptorBody(d))
		ds = append(ds, d)
	}
	return ds
}

// BigDescriptors draws a loop whose encoding is between 1000 and maxBytes (<= 4095) bytes: loop lengths that need
// the upper bits of the 12-bit length field. Bodies are long user-defined / unknown / registration descriptors mixed
// with ordinary ones.
func BigDescriptors(t *rapid.T, maxBytes int, label string) []*astits.Descriptor {
	if maxBytes > 4095 {
		maxBytes = 4095
	}
	target := rapid.IntRange(1000, maxBytes).Draw(t, label+"_target")
	switch Uniform(t, 4, label+"_tk") {
	case 0:
		target = maxBytes
	case 1:
		target = rapid.SampledFrom([]int{1023, 1024, 1025, 2047, 2048, 2049}).Draw(t, label+"_edge")
		if target > maxBytes {
			target = maxBytes
		}
	}
	var ds []*astits.Descriptor
	total := 0
	for total < target {
		left := target - total
		if left < 2 {
			break
		}
		var d *astits.Descriptor
		if left <= 257 || Chance(t, 25, label+"_small") {
			d = Descriptor(t, left, label+"_s")
		} else {
			n := rapid.IntRange(200, 255).Draw(t, label+"_bn")
			switch Uniform(t, 3, label+"_bk") {
			case 0:
				d = &astits.Descriptor{Tag: uint8(rapid.IntRange(0x80, 0xfe).Draw(t, label+"_ud")), UserDefined: Bytes(t, n, label+"_udb"), Length: uint8(n)}
			case 1:
				d = &astits.Descriptor{Tag: 0x40, NetworkName: &astits.DescriptorNetworkName{Name: Bytes(t, n, label+"_nn")}, Length: uint8(n)}
			default:
				d = &astits.Descriptor{Tag: 0x05, Registration: &astits.DescriptorRegistration{FormatIdentifier: uint32(EdgeU(t, 32, label+"_fi")), AdditionalIdentificationInfo: Bytes(t, n-4, label+"_ri")}, Length: uint8(n)}
			}
		}
		if d == nil {
			break
		}
		total += 2 + len(ref.DescriptorBody(d))
		ds = append(ds, d)
	}
	return ds
}
