package gen

import (
	"pgregory.net/rapid"

	"verifharness/ref"
)

// PCR draws a program clock reference.
func PCR(t *rapid.T, label string) *ref.PCR {
	return &ref.PCR{Base: EdgeU(t, 33, label+"_base"), Ext: uint16(EdgeU(t, 9, label+"_ext"))}
}

// AFOpts constrains adaptation field generation.
type AFOpts struct {
	NoDisc bool // never set discontinuity_indicator
}

// AF draws an adaptation field whose total size (length byte included) is at most budget (>= 2) and has no stuffing.
// Parts are dropped, not rejected, when they do not fit.
func AF(t *rapid.T, budget int, o AFOpts, label string) *ref.AF {
	a := &ref.AF{}
	if !o.NoDisc {
		a.Disc = Chance(t, 10, label+"_disc")
	}
	a.RAI = Bool(t, label+"_rai")
	a.ESPrio = Bool(t, label+"_esp")
	left := budget - 2
	flags := rapid.IntRange(0, 31).Draw(t, label+"_parts")
	if flags&1 != 0 && left >= 6 {
		a.PCR = PCR(t, label+"_pcr")
		left -= 6
	}
	if flags&2 != 0 && left >= 6 {
		a.OPCR = PCR(t, label+"_opcr")
		left -= 6
	}
	if flags&4 != 0 && left >= 1 {
		v := uint8(EdgeU(t, 8, label+"_splice"))
		a.Splice = &v
		left--
	}
	if flags&16 != 0 && left >= 2 {
		e := &ref.AFExt{}
		eparts := rapid.IntRange(0, 7).Draw(t, label+"_eparts")
		l := left - 2
		if eparts&1 != 0 && l >= 2 {
			e.LTW = &ref.LTW{Valid: Bool(t, label+"_ltwv"), Offset: uint16(EdgeU(t, 15, label+"_ltwo"))}
			l -= 2
		}
		if eparts&2 != 0 && l >= 3 {
			v := uint32(EdgeU(t, 22, label+"_pw"))
			e.Piecewise = &v
			l -= 3
		}
		if eparts&4 != 0 && l >= 5 {
			e.Seamless = &ref.Seamless{Type: uint8(EdgeU(t, 4, label+"_st")), DTS: EdgeU(t, 33, label+"_sdts")}
			l -= 5
		}
		a.Ext = e
		left -= 1 + e.ExtBodySize()
	}
	if flags&8 != 0 && left >= 1 {
		a.HasPrivate = true
		var n int
		switch rapid.IntRange(0, 3).Draw(t, label+"_pdk") {
		case 0:
			n = 0
		case 1:
			n = left - 1 // as much as fits
		default:
			n = rapid.IntRange(0, left-1).Draw(t, label+"_pdn")
		}
		a.Private = Bytes(t, n, label+"_pd")
		left -= 1 + n
	}
	return a
}

// TSHeader draws the header fields of a packet.
func TSHeader(t *rapid.T, p *ref.TSPacket, label string) {
	p.TEI = Chance(t, 10, label+"_tei")
	p.PUSI = Bool(t, label+"_pusi")
	p.Prio = Bool(t, label+"_prio")
	p.PID = uint16(EdgeU(t, 13, label+"_pid"))
	p.TSC = uint8(rapid.IntRange(0, 3).Draw(t, label+"_tsc"))
	p.CC = uint8(rapid.IntRange(0, 15).Draw(t, label+"_cc"))
}

// TSPacket draws a conformant packet that fills exactly 188 bytes: any header, adaptation_field_control 01/10/11,
// any adaptation field (empty form, any subset of parts, any stuffing), payload filling the rest.
func TSPacket(t *rapid.T, label string) *ref.TSPacket {
	p := &ref.TSPacket{}
	TSHeader(t, p, label)
	switch rapid.IntRange(1, 3).Draw(t, label+"_afc") {
	case 1:
		p.HasPayload = true
		p.Payload = Bytes(t, 184, label+"_pl")
	case 2:
		p.HasAF = true
		a := AF(t, 184, AFOpts{}, label+"_af")
		a.Stuffing = 184 - a.Size()
		p.AF = a
	default:
		p.HasAF, p.HasPayload = true, true
		var a *ref.AF
		switch rapid.IntRange(0, 5).Draw(t, label+"_afk") {
		case 0:
			a = &ref.AF{Empty: true}
		case 1:
			// flags only, then stuffing of any length
			a = &ref.AF{RAI: Bool(t, label+"_rai")}
			a.Stuffing = rapid.IntRange(0, 181).Draw(t, label+"_stuff")
		case 2:
			// biggest possible field: one payload byte left
			a = AF(t, 183, AFOpts{}, label+"_af")
			a.Stuffing = 183 - a.Size()
		default:
			a = AF(t, 183, AFOpts{}, label+"_af")
			room := 183 - a.Size()
			if room > 0 && Bool(t, label+"_st") {
				a.Stuffing = rapid.IntRange(0, room).Draw(t, label+"_stuff")
			}
		}
		p.AF = a
		p.Payload = Bytes(t, 184-a.Size(), label+"_pl")
	}
	return p
}
