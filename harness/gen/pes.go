package gen

import (
	"pgregory.net/rapid"

	"verifharness/ref"
)

// Stream ids for which ISO 13818-1 and the library's documented rule agree that an optional header follows.
var streamIDsWithHeader = func() []uint8 {
	var ids []uint8
	for id := 0xbd; id <= 0xfe; id++ {
		switch id {
		case 0xbe, 0xbf, 0xf0, 0xf1, 0xf2, 0xf8:
			continue
		}
		ids = append(ids, uint8(id))
	}
	return ids
}()

// StreamIDWithHeader draws a stream id that carries an optional PES header.
func StreamIDWithHeader(t *rapid.T, label string) uint8 {
	switch rapid.IntRange(0, 3).Draw(t, label+"_k") {
	case 0:
		return 0xe0
	case 1:
		return 0xc0
	default:
		return rapid.SampledFrom(streamIDsWithHeader).Draw(t, label)
	}
}

// PESOptOpts restricts optional header generation.
type PESOptOpts struct {
	Writable bool // only what the library's writer supports: no previous CRC, no header stuffing
	MaxSize  int  // maximum PES_header_data_length (0 = 255)
}

// PESOpt draws an optional PES header.
func PESOpt(t *rapid.T, o PESOptOpts, label string) *ref.PESOpt {
	max := o.MaxSize
	if max == 0 {
		max = 255
	}
	h := &ref.PESOpt{
		Scrambling: uint8(rapid.IntRange(0, 3).Draw(t, label+"_sc")),
		Priority:   Bool(t, label+"_prio"),
		Alignment:  Bool(t, label+"_align"),
		Copyright:  Bool(t, label+"_copy"),
		Original:   Bool(t, label+"_orig"),
	}
	left := max
	flags := rapid.IntRange(0, 255).Draw(t, label+"_flags")
	if flags>>6 == 1 && !o.Writable {
		// the forbidden value '01': no timestamp follows in the syntax, the other fields sit where they would without it
		h.Forbidden01 = true
		flags &= 0x3f
	}
	switch flags >> 6 {
	case 2, 1: // PTS only (for the writer the forbidden value '01' is never produced)
		if left >= 5 {
			v := EdgeU(t, 33, label+"_pts")
			h.PTS = &v
			left -= 5
		}
	case 3:
		if left >= 10 {
			v, d := EdgeU(t, 33, label+"_pts"), EdgeU(t, 33, label+"_dts")
			h.PTS, h.DTS = &v, &d
			left -= 10
		}
	}
	if flags&0x20 != 0 && left >= 6 {
		h.ESCR = &ref.PCR{Base: EdgeU(t, 33, label+"_escrb"), Ext: uint16(EdgeU(t, 9, label+"_escre"))}
		left -= 6
	}
	if flags&0x10 != 0 && left >= 3 {
		v := uint32(EdgeU(t, 22, label+"_rate"))
		h.ESRate = &v
		left -= 3
	}
	if flags&0x08 != 0 && left >= 1 {
		v := uint8(rapid.IntRange(0, 255).Draw(t, label+"_trick"))
		if o.Writable {
			// reserved bits are written as 1: keep to bytes the field-wise struct can express
			c, f, i, q, r := ref.TrickFields(v)
			v = ref.TrickByte(c, f, i, q, r)
		}
		h.Trick = &v
		left--
	}
	if flags&0x04 != 0 && left >= 1 {
		v := uint8(EdgeU(t, 7, label+"_ci"))
		h.CopyInfo = &v
		left--
	}
	if flags&0x02 != 0 && left >= 2 && !o.Writable {
		v := uint16(EdgeU(t, 16, label+"_crc"))
		h.CRC = &v
		left -= 2
	}
	if flags&0x01 != 0 && left >= 1 {
		e := &ref.PESExt{}
		left--
		ef := rapid.IntRange(0, 15).Draw(t, label+"_eflags")
		if ef&8 != 0 && left >= 16 {
			e.HasPriv, e.Private = true, Bytes(t, 16, label+"_priv")
			left -= 16
		}
		if ef&4 != 0 && left >= 2 {
			e.Seq = &ref.SeqCounter{Counter: uint8(EdgeU(t, 7, label+"_seq")), MPEG1: uint8(rapid.IntRange(0, 1).Draw(t, label+"_m1")), OrigStuff: uint8(EdgeU(t, 6, label+"_os"))}
			left -= 2
		}
		if ef&2 != 0 && left >= 2 {
			e.PSTD = &ref.PSTD{Scale: uint8(rapid.IntRange(0, 1).Draw(t, label+"_pscale")), Size: uint16(EdgeU(t, 13, label+"_psize"))}
			left -= 2
		}
		if ef&1 != 0 && left >= 1 {
			e.HasExt2 = true
			maxn := left - 1
			if maxn > 127 {
				maxn = 127
			}
			var n int
			switch rapid.IntRange(0, 3).Draw(t, label+"_e2k") {
			case 0:
				n = 0
			case 1:
				n = maxn
			default:
				n = rapid.IntRange(0, maxn).Draw(t, label+"_e2n")
			}
			e.Ext2 = Bytes(t, n, label+"_e2")
			left -= 1 + n
		}
		h.Ext = e
	}
	if !o.Writable && left > 0 && Chance(t, 30, label+"_stuffq") {
		maxs := left
		if maxs > 32 {
			maxs = 32
		}
		h.Stuffing = rapid.IntRange(0, maxs).Draw(t, label+"_stuff")
	}
	return h
}
