// Package gen holds the rapid generators shared by the checks.
package gen

import (
	"pgregory.net/rapid"
)

// EdgeU draws an unsigned value of the given width, biased to the values bit-level slips get wrong: 0, all ones,
// every single-bit value, all ones with one bit cleared, and uniform values.
func EdgeU(t *rapid.T, bits uint, label string) uint64 {
	max := uint64(1)<<bits - 1
	if bits >= 64 {
		max = ^uint64(0)
	}
	switch rapid.IntRange(0, 9).Draw(t, label+"_kind") {
	case 0:
		return 0
	case 1:
		return max
	case 2, 3:
		k := rapid.IntRange(0, int(bits)-1).Draw(t, label+"_bit")
		return uint64(1) << uint(k)
	case 4:
		k := rapid.IntRange(0, int(bits)-1).Draw(t, label+"_bit")
		return max &^ (uint64(1) << uint(k))
	default:
		return rapid.Uint64Range(0, max).Draw(t, label)
	}
}

// Bytes draws n bytes (n fixed).
func Bytes(t *rapid.T, n int, label string) []byte {
	if n <= 0 {
		return []byte{}
	}
	switch rapid.IntRange(0, 5).Draw(t, label+"_fill") {
	case 0:
		// constant fill: exercises 0x00 / 0xFF / 0x47 look-alikes
		c := rapid.SampledFrom([]byte{0x00, 0xff, 0x47, 0x01}).Draw(t, label+"_c")
		b := make([]byte, n)
		for i := range b {
			b[i] = c
		}
		return b
	case 1:
		// counter pattern: makes misplaced bytes visible
		s := rapid.Byte().Draw(t, label+"_start")
		b := make([]byte, n)
		for i := range b {
			b[i] = s + byte(i)
		}
		return b
	default:
		return rapid.SliceOfN(rapid.Byte(), n, n).Draw(t, label)
	}
}

// Bool draws a flag.
func Bool(t *rapid.T, label string) bool { return rapid.Bool().Draw(t, label) }

// Chance is true with probability about pct/100. rapid's integer generators are strongly biased towards small
// values (IntRange(0,99) < 8 holds 40% of the time), so the decision is assembled from fair boolean draws.
func Chance(t *rapid.T, pct int, label string) bool {
	return Uniform(t, 64, label) < (pct*64+50)/100
}

// Uniform draws a (nearly) uniform value in [0,n) for small n from fair boolean draws.
func Uniform(t *rapid.T, n int, label string) int {
	bits := 3
	for 1<<uint(bits-3) < n {
		bits++
	}
	v := 0
	for i := 0; i < bits; i++ {
		v <<= 1
		if rapid.Bool().Draw(t, label) {
			v |= 1
		}
	}
	return v % n
}
