package obs

import (
	"encoding/hex"
	"fmt"
	"reflect"
	"sort"
	"strings"
	"time"
)

var timeType = reflect.TypeOf(time.Time{})

// Canon renders any value in a canonical textual form: pointers are followed, nil and empty slices are alike,
// byte slices are printed in hex, time.Time by its UTC instant. Struct fields named in skip ("Type.Field" or
// "Field") are left out.
func Canon(v interface{}, skip ...string) string {
	var sb strings.Builder
	sk := map[string]bool{}
	for _, s := range skip {
		sk[s] = true
	}
	canon(&sb, reflect.ValueOf(v), sk, 0)
	return sb.String()
}

func canon(sb *strings.Builder, v reflect.Value, skip map[string]bool, depth int) {
	if !v.IsValid() {
		sb.WriteString("nil")
		return
	}
	if depth > 40 {
		sb.WriteString("<deep>")
		return
	}
	switch v.Kind() {
	case reflect.Ptr, reflect.Interface:
		if v.IsNil() {
			sb.WriteString("nil")
			return
		}
		if v.Kind() == reflect.Ptr {
			sb.WriteString("&")
		}
		canon(sb, v.Elem(), skip, depth+1)
	case reflect.Struct:
		if v.Type() == timeType {
			t := v.Interface().(time.Time)
			if t.IsZero() {
				sb.WriteString("time(zero)")
			} else {
				fmt.Fprintf(sb, "time(%s)", t.UTC().Format("2006-01-02T15:04:05.999999999Z"))
			}
			return
		}
		tn := v.Type().Name()
		sb.WriteString(tn)
		sb.WriteString("{")
		first := true
		for i := 0; i < v.NumField(); i++ {
			f := v.Type().Field(i)
			if skip[f.Name] || skip[tn+"."+f.Name] {
				continue
			}
			if f.PkgPath != "" { // unexported
				continue
			}
			if !first {
				sb.WriteString(" ")
			}
			first = false
			sb.WriteString(f.Name)
			sb.WriteString(":")
			canon(sb, v.Field(i), skip, depth+1)
		}
		sb.WriteString("}")
	case reflect.Slice, reflect.Array:
		if v.Kind() == reflect.Slice && v.Type().Elem().Kind() == reflect.Uint8 {
			sb.WriteString("x'")
			sb.WriteString(hex.EncodeToString(v.Bytes()))
			sb.WriteString("'")
			return
		}
		sb.WriteString("[")
		for i := 0; i < v.Len(); i++ {
			if i > 0 {
				sb.WriteString(" ")
			}
			canon(sb, v.Index(i), skip, depth+1)
		}
		sb.WriteString("]")
	case reflect.Map:
		keys := v.MapKeys()
		strs := make([]string, len(keys))
		idx := map[string]reflect.Value{}
		for i, k := range keys {
			var kb strings.Builder
			canon(&kb, k, skip, depth+1)
			strs[i] = kb.String()
			idx[strs[i]] = k
		}
		sort.Strings(strs)
		sb.WriteString("map[")
		for i, s := range strs {
			if i > 0 {
				sb.WriteString(" ")
			}
			sb.WriteString(s)
			sb.WriteString(":")
			canon(sb, v.MapIndex(idx[s]), skip, depth+1)
		}
		sb.WriteString("]")
	case reflect.Bool:
		if v.Bool() {
			sb.WriteString("T")
		} else {
			sb.WriteString("F")
		}
	case reflect.Int, reflect.Int8, reflect.Int16, reflect.Int32, reflect.Int64:
		fmt.Fprintf(sb, "%d", v.Int())
	case reflect.Uint, reflect.Uint8, reflect.Uint16, reflect.Uint32, reflect.Uint64, reflect.Uintptr:
		fmt.Fprintf(sb, "%d", v.Uint())
	case reflect.String:
		fmt.Fprintf(sb, "%q", v.String())
	case reflect.Float32, reflect.Float64:
		fmt.Fprintf(sb, "%v", v.Float())
	case reflect.Func, reflect.Chan, reflect.UnsafePointer:
		sb.WriteString("<opaque>")
	default:
		fmt.Fprintf(sb, "%v", v.Interface())
	}
}

// Diff returns a short description of the first difference between two canonical strings.
func Diff(a, b string) string {
	n := len(a)
	if len(b) < n {
		n = len(b)
	}
	i := 0
	for i < n && a[i] == b[i] {
		i++
	}
	lo := i - 60
	if lo < 0 {
		lo = 0
	}
	ha, hb := i+80, i+80
	if ha > len(a) {
		ha = len(a)
	}
	if hb > len(b) {
		hb = len(b)
	}
	return fmt.Sprintf("first difference at %d:\n  got : ...%s\n  want: ...%s", i, a[lo:ha], b[lo:hb])
}

// Trunc shortens a string for samples.
func Trunc(s string, n int) string {
	if len(s) <= n {
		return s
	}
	return s[:n] + fmt.Sprintf("...(+%d)", len(s)-n)
}
