// Package obs holds what every check shares: evidence recording, case signatures, known findings,
// tier/shard configuration.
package obs

import (
	"encoding/binary"
	"encoding/json"
	"fmt"
	"os"
	"path/filepath"
	"sort"
	"strconv"
	"strings"
	"sync"
	"time"
)

// Tier returns "quick" or "thorough".
func Tier() string {
	if os.Getenv("VERIF_TIER") == "thorough" {
		return "thorough"
	}
	return "quick"
}

// Thorough reports whether the thorough tier is running.
func Thorough() bool { return Tier() == "thorough" }

// Shard returns (index, count) of the current shard; (0,1) when unsharded.
func Shard() (int, int) {
	k, _ := strconv.Atoi(os.Getenv("VERIF_SHARD"))
	n, _ := strconv.Atoi(os.Getenv("VERIF_NSHARDS"))
	if n <= 0 {
		n = 1
	}
	if k < 0 || k >= n {
		k = 0
	}
	return k, n
}

// Seed returns VERIF_SEED (default 20260926).
func Seed() int64 {
	if v, err := strconv.ParseInt(os.Getenv("VERIF_SEED"), 10, 64); err == nil {
		return v
	}
	return 20260926
}

// Root returns the /verif directory.
func Root() string {
	if v := os.Getenv("VERIF_ROOT"); v != "" {
		return v
	}
	return "/verif"
}

// Scale picks a count by tier.
func Scale(quick, thorough int) int {
	if Thorough() {
		return thorough
	}
	return quick
}

// Recorder accumulates what one (sub)test covered; Flush writes it for the driver to merge.
type Recorder struct {
	mu          sync.Mutex
	property    string
	unit        string
	rule        string
	start       time.Time
	evaluations int64
	enumerated  int64
	sigs        map[uint64]struct{}
	samples     []interface{}
	maxSamples  int
	classes     map[string]int64
	excluded    map[string]int64
	known       map[string]int64
	exhaustive  *bool
	notes       []string
	assumptions []string
	flushed     bool
}

// NewRecorder creates a recorder for a property and a unit (sub-check) name.
func NewRecorder(property, unit, rule string) *Recorder {
	return &Recorder{
		property:   property,
		unit:       unit,
		rule:       rule,
		start:      time.Now(),
		sigs:       map[uint64]struct{}{},
		classes:    map[string]int64{},
		excluded:   map[string]int64{},
		known:      map[string]int64{},
		maxSamples: 3,
	}
}

// Case records one evaluated case. sample is only called for the first few non-trivial cases.
func (r *Recorder) Case(sig uint64, nontrivial bool, sample func() interface{}) {
	r.mu.Lock()
	defer r.mu.Unlock()
	r.evaluations++
	if !nontrivial {
		return
	}
	if _, ok := r.sigs[sig]; ok {
		return
	}
	r.sigs[sig] = struct{}{}
	if len(r.samples) < r.maxSamples && sample != nil {
		r.samples = append(r.samples, sample())
	}
}

// Evals adds n evaluations without signatures (used by exhaustive sweeps that count distinct cases themselves).
func (r *Recorder) Evals(n int64) {
	r.mu.Lock()
	r.evaluations += n
	r.mu.Unlock()
}

// Enumerated adds n cases that are distinct by construction (an enumeration of a finite domain): they count as
// evaluations and as distinct non-trivial cases without storing a signature each.
func (r *Recorder) Enumerated(n int64) {
	r.mu.Lock()
	r.evaluations += n
	r.enumerated += n
	r.mu.Unlock()
}

// Distinct registers a distinct non-trivial case by signature without counting an evaluation.
func (r *Recorder) Distinct(sig uint64) {
	r.mu.Lock()
	r.sigs[sig] = struct{}{}
	r.mu.Unlock()
}

// Sample adds a sample unconditionally (bounded).
func (r *Recorder) Sample(s interface{}) {
	r.mu.Lock()
	if len(r.samples) < r.maxSamples {
		r.samples = append(r.samples, s)
	}
	r.mu.Unlock()
}

// Class counts a case into a named class.
func (r *Recorder) Class(name string) { r.ClassN(name, 1) }

// ClassN adds n to a named class.
func (r *Recorder) ClassN(name string, n int64) {
	r.mu.Lock()
	r.classes[name] += n
	r.mu.Unlock()
}

// Excluded counts a shape excluded by construction (confirmed finding or stated precondition).
func (r *Recorder) Excluded(name string) {
	r.mu.Lock()
	r.excluded[name]++
	r.mu.Unlock()
}

// SetExhaustive marks the unit as having enumerated its finite domain completely.
func (r *Recorder) SetExhaustive(b bool) {
	r.mu.Lock()
	r.exhaustive = &b
	r.mu.Unlock()
}

// Note adds a free-text note.
func (r *Recorder) Note(format string, a ...interface{}) {
	r.mu.Lock()
	r.notes = append(r.notes, fmt.Sprintf(format, a...))
	r.mu.Unlock()
}

// Assume records an assumption of the check.
func (r *Recorder) Assume(s string) {
	r.mu.Lock()
	r.assumptions = append(r.assumptions, s)
	r.mu.Unlock()
}

// Known checks a violation signature against KNOWN_FINDINGS.txt. If the key is listed as open for the property it
// prints the KNOWN-FINDING line (once per process and key) and returns true.
func (r *Recorder) Known(key, what string) bool {
	if !knownOpen(r.property, key) {
		return false
	}
	r.mu.Lock()
	r.known[key]++
	first := r.known[key] == 1
	r.mu.Unlock()
	if first {
		fmt.Printf("KNOWN-FINDING: property=%s key=%s %s\n", r.property, key, what)
	}
	return true
}

type shardFile struct {
	Property    string           `json:"property"`
	Unit        string           `json:"unit"`
	Rule        string           `json:"rule"`
	Shard       int              `json:"shard"`
	NShards     int              `json:"nshards"`
	Evaluations int64            `json:"evaluations"`
	Distinct    int              `json:"distinct_nontrivial"`
	Enumerated  int64            `json:"enumerated"`
	Samples     []interface{}    `json:"samples"`
	Classes     map[string]int64 `json:"classes"`
	Excluded    map[string]int64 `json:"excluded"`
	Known       map[string]int64 `json:"known"`
	Exhaustive  *bool            `json:"exhaustive,omitempty"`
	Notes       []string         `json:"notes,omitempty"`
	Assumptions []string         `json:"assumptions,omitempty"`
	WallS       float64          `json:"wall_s"`
	SigsFile    string           `json:"sigs_file"`
}

// Flush writes the shard file (JSON) and its signature set (raw little-endian uint64s) to $VERIF_OUT.
func (r *Recorder) Flush() {
	r.mu.Lock()
	defer r.mu.Unlock()
	out := os.Getenv("VERIF_OUT")
	if out == "" {
		return
	}
	_ = os.MkdirAll(out, 0o755)
	k, n := Shard()
	base := fmt.Sprintf("%s.%s.%d", r.property, strings.ReplaceAll(r.unit, "/", "_"), k)
	sigs := make([]uint64, 0, len(r.sigs))
	for s := range r.sigs {
		sigs = append(sigs, s)
	}
	sort.Slice(sigs, func(i, j int) bool { return sigs[i] < sigs[j] })
	buf := make([]byte, 8*len(sigs))
	for i, s := range sigs {
		binary.LittleEndian.PutUint64(buf[8*i:], s)
	}
	sigPath := filepath.Join(out, base+".sigs")
	_ = os.WriteFile(sigPath, buf, 0o644)
	sf := shardFile{
		Property: r.property, Unit: r.unit, Rule: r.rule, Shard: k, NShards: n,
		Evaluations: r.evaluations, Distinct: len(sigs), Enumerated: r.enumerated, Samples: r.samples, Classes: r.classes,
		Excluded: r.excluded, Known: r.known, Exhaustive: r.exhaustive, Notes: r.notes,
		Assumptions: r.assumptions, WallS: time.Since(r.start).Seconds(), SigsFile: sigPath,
	}
	b, err := json.MarshalIndent(sf, "", " ")
	if err != nil {
		b, _ = json.Marshal(map[string]interface{}{"property": r.property, "unit": r.unit, "error": err.Error()})
	}
	_ = os.WriteFile(filepath.Join(out, base+".json"), b, 0o644)
	r.flushed = true
}

// ---------------------------------------------------------------------------------------------------------------------

var (
	knownOnce sync.Once
	knownSet  map[string]bool
)

func knownOpen(property, key string) bool {
	knownOnce.Do(func() {
		knownSet = map[string]bool{}
		b, err := os.ReadFile(filepath.Join(Root(), "KNOWN_FINDINGS.txt"))
		if err != nil {
			return
		}
		for _, l := range strings.Split(string(b), "\n") {
			l = strings.TrimSpace(l)
			if !strings.HasPrefix(l, "open:") {
				continue
			}
			var p, k string
			for _, f := range strings.Fields(l) {
				if strings.HasPrefix(f, "property=") {
					p = strings.TrimPrefix(f, "property=")
				} else if strings.HasPrefix(f, "key=") {
					k = strings.TrimPrefix(f, "key=")
				}
			}
			if p != "" && k != "" {
				knownSet[p+"|"+k] = true
			}
		}
	})
	return knownSet[property+"|"+key]
}

// ---------------------------------------------------------------------------------------------------------------------

// Hasher is FNV-1a 64 with helpers, used for case signatures.
type Hasher uint64

// NewHasher returns an initialised hasher.
func NewHasher() Hasher { return Hasher(14695981039346656037) }

// Bytes feeds bytes.
func (h *Hasher) Bytes(b []byte) {
	x := uint64(*h)
	for _, c := range b {
		x ^= uint64(c)
		x *= 1099511628211
	}
	// length separator
	x ^= uint64(len(b)) + 0x9e3779b97f4a7c15
	x *= 1099511628211
	*h = Hasher(x)
}

// Int feeds an integer.
func (h *Hasher) Int(v int64) {
	var b [8]byte
	binary.LittleEndian.PutUint64(b[:], uint64(v))
	x := uint64(*h)
	for _, c := range b {
		x ^= uint64(c)
		x *= 1099511628211
	}
	*h = Hasher(x)
}

// String feeds a string.
func (h *Hasher) String(s string) { h.Bytes([]byte(s)) }

// Sum returns the signature.
func (h Hasher) Sum() uint64 { return uint64(h) }
