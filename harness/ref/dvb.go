package ref

// DVB date and time coding (ETSI EN 300 468 Annex C): a 16-bit Modified Julian Date followed by six BCD digits
// hh mm ss. The conversions here use integer day arithmetic on the proleptic Gregorian calendar, not the
// floating-point formulas of Annex C.

// MJD 0 is 1858-11-17; 1970-01-01 is MJD 40587.
const mjdUnixEpoch = 40587

// CivilFromMJD converts a Modified Julian Date to year, month, day.
func CivilFromMJD(mjd int) (y, m, d int) {
	z := int64(mjd) - mjdUnixEpoch + 719468 // days since 0000-03-01
	era := z / 146097
	if z < 0 {
		era = (z - 146096) / 146097
	}
	doe := z - era*146097                                  // [0, 146096]
	yoe := (doe - doe/1460 + doe/36524 - doe/146096) / 365 // [0, 399]
	yy := yoe + era*400
	doy := doe - (365*yoe + yoe/4 - yoe/100) // [0, 365]
	mp := (5*doy + 2) / 153                  // [0, 11]
	d = int(doy - (153*mp+2)/5 + 1)
	if mp < 10 {
		m = int(mp + 3)
	} else {
		m = int(mp - 9)
	}
	if m <= 2 {
		yy++
	}
	return int(yy), m, d
}

// MJDFromCivil converts a calendar date to a Modified Julian Date.
func MJDFromCivil(y, m, d int) int {
	yy := int64(y)
	if m <= 2 {
		yy--
	}
	era := yy / 400
	if yy < 0 {
		era = (yy - 399) / 400
	}
	yoe := yy - era*400
	mm := int64(m)
	var mp int64
	if mm > 2 {
		mp = mm - 3
	} else {
		mp = mm + 9
	}
	doy := (153*mp+2)/5 + int64(d) - 1
	doe := yoe*365 + yoe/4 - yoe/100 + doy
	return int(era*146097 + doe - 719468 + mjdUnixEpoch)
}

// BCD2 encodes 0..99 as two BCD digits.
func BCD2(v int) byte { return byte(v/10)<<4 | byte(v%10) }

// FromBCD2 decodes two BCD digits digit-wise; ok is false when a nibble is not a decimal digit.
func FromBCD2(b byte) (v int, ok bool) {
	hi, lo := int(b>>4), int(b&0xf)
	return hi*10 + lo, hi <= 9 && lo <= 9
}

// EncodeDVBTime encodes a calendar date and time of day as the five bytes MJD(16) hh mm ss (BCD).
func EncodeDVBTime(y, mo, d, h, mi, s int) []byte {
	mjd := MJDFromCivil(y, mo, d)
	return []byte{byte(mjd >> 8), byte(mjd), BCD2(h), BCD2(mi), BCD2(s)}
}

// UnixFromDVB returns the Unix time in seconds of an MJD and a time of day given in seconds.
func UnixFromDVB(mjd int, secondsOfDay int) int64 {
	return (int64(mjd)-mjdUnixEpoch)*86400 + int64(secondsOfDay)
}
