package ref

import "fmt"

// PES packet header, ISO/IEC 13818-1 2.4.3.6 / 2.4.3.7.

// SeqCounter is the program_packet_sequence_counter part of the PES extension.
type SeqCounter struct {
	Counter   uint8 // 7 bits
	MPEG1     uint8 // MPEG1_MPEG2_identifier, 1 bit
	OrigStuff uint8 // original_stuff_length, 6 bits
}

// PSTD is the P-STD buffer part of the PES extension.
type PSTD struct {
	Scale uint8  // 1 bit
	Size  uint16 // 13 bits
}

// PESExt is the PES extension.
type PESExt struct {
	Private []byte // 16 bytes when present
	HasPriv bool
	Seq     *SeqCounter
	PSTD    *PSTD
	HasExt2 bool
	Ext2    []byte // PES_extension_field_length bytes (0..127)
}

// PESOpt is the optional PES header (everything after PES_packet_length up to the payload).
type PESOpt struct {
	Scrambling uint8 // 2 bits
	Priority   bool
	Alignment  bool
	Copyright  bool
	Original   bool
	PTS        *uint64 // 33 bits
	DTS        *uint64 // 33 bits, only with PTS
	ESCR       *PCR
	ESRate     *uint32 // 22 bits
	Trick      *uint8  // raw DSM trick mode byte
	CopyInfo   *uint8  // 7 bits
	CRC        *uint16
	Ext        *PESExt
	Stuffing   int // stuffing bytes at the end of the header
	// Forbidden01 encodes PTS_DTS_flags as '01' (forbidden by ISO 13818-1; the syntax puts no timestamp in the header
	// for it). Only meaningful without PTS and DTS; decode tests only.
	Forbidden01 bool
}

// PES is a PES packet: header fields plus payload.
type PES struct {
	StreamID uint8
	// Length is the PES_packet_length to encode: -1 means "exact" (computed), 0 means unbounded, any other value is
	// written as is (used for shorter / longer than available).
	Length  int
	Opt     *PESOpt // nil for stream ids without optional header
	Payload []byte
}

// ExtSize is the size of the PES extension including its flag byte.
func (e *PESExt) ExtSize() int {
	n := 1
	if e.HasPriv {
		n += 16
	}
	if e.Seq != nil {
		n += 2
	}
	if e.PSTD != nil {
		n += 2
	}
	if e.HasExt2 {
		n += 1 + len(e.Ext2)
	}
	return n
}

// DataLength is PES_header_data_length.
func (o *PESOpt) DataLength() int {
	n := 0
	if o.PTS != nil {
		n += 5
		if o.DTS != nil {
			n += 5
		}
	}
	if o.ESCR != nil {
		n += 6
	}
	if o.ESRate != nil {
		n += 3
	}
	if o.Trick != nil {
		n++
	}
	if o.CopyInfo != nil {
		n++
	}
	if o.CRC != nil {
		n += 2
	}
	if o.Ext != nil {
		n += o.Ext.ExtSize()
	}
	return n + o.Stuffing
}

// HeaderSize is the number of bytes before the payload (start code included).
func (p *PES) HeaderSize() int {
	if p.Opt == nil {
		return 6
	}
	return 9 + p.Opt.DataLength()
}

// PTSDTSFlags returns the 2-bit PTS_DTS_flags.
func (o *PESOpt) PTSDTSFlags() uint8 {
	switch {
	case o.PTS != nil && o.DTS != nil:
		return 3
	case o.PTS != nil:
		return 2
	case o.Forbidden01:
		return 1
	}
	return 0
}

// EncodedLength returns the value written into PES_packet_length.
func (p *PES) EncodedLength() int {
	if p.Length >= 0 {
		return p.Length
	}
	return p.HeaderSize() - 6 + len(p.Payload)
}

// EncodeHeader returns the header bytes (start code .. end of optional header).
func (p *PES) EncodeHeader() []byte {
	w := &BitWriter{}
	w.U(0x000001, 24)
	w.U(uint64(p.StreamID), 8)
	l := p.EncodedLength()
	if l > 0xffff {
		panic(fmt.Sprintf("ref: PES_packet_length %d", l))
	}
	w.U(uint64(l), 16)
	if o := p.Opt; o != nil {
		w.U(2, 2)
		w.U(uint64(o.Scrambling), 2)
		w.B(o.Priority)
		w.B(o.Alignment)
		w.B(o.Copyright)
		w.B(o.Original)
		w.U(uint64(o.PTSDTSFlags()), 2)
		w.B(o.ESCR != nil)
		w.B(o.ESRate != nil)
		w.B(o.Trick != nil)
		w.B(o.CopyInfo != nil)
		w.B(o.CRC != nil)
		w.B(o.Ext != nil)
		w.U(uint64(o.DataLength()), 8)
		if o.PTS != nil && o.DTS != nil {
			WriteTimestamp33(w, 3, *o.PTS)
			WriteTimestamp33(w, 1, *o.DTS)
		} else if o.PTS != nil {
			WriteTimestamp33(w, 2, *o.PTS)
		}
		if o.ESCR != nil {
			w.U(3, 2)
			w.U(o.ESCR.Base>>30, 3)
			w.U(1, 1)
			w.U(o.ESCR.Base>>15, 15)
			w.U(1, 1)
			w.U(o.ESCR.Base, 15)
			w.U(1, 1)
			w.U(uint64(o.ESCR.Ext), 9)
			w.U(1, 1)
		}
		if o.ESRate != nil {
			w.U(1, 1)
			w.U(uint64(*o.ESRate), 22)
			w.U(1, 1)
		}
		if o.Trick != nil {
			w.U(uint64(*o.Trick), 8)
		}
		if o.CopyInfo != nil {
			w.U(1, 1)
			w.U(uint64(*o.CopyInfo), 7)
		}
		if o.CRC != nil {
			w.U(uint64(*o.CRC), 16)
		}
		if e := o.Ext; e != nil {
			w.B(e.HasPriv)
			w.B(false) // pack_header_field_flag
			w.B(e.Seq != nil)
			w.B(e.PSTD != nil)
			w.U(7, 3)
			w.B(e.HasExt2)
			if e.HasPriv {
				if len(e.Private) != 16 {
					panic("ref: PES_private_data must be 16 bytes")
				}
				w.Bytes(e.Private)
			}
			if e.Seq != nil {
				w.U(1, 1)
				w.U(uint64(e.Seq.Counter), 7)
				w.U(1, 1)
				w.U(uint64(e.Seq.MPEG1), 1)
				w.U(uint64(e.Seq.OrigStuff), 6)
			}
			if e.PSTD != nil {
				w.U(1, 2)
				w.U(uint64(e.PSTD.Scale), 1)
				w.U(uint64(e.PSTD.Size), 13)
			}
			if e.HasExt2 {
				w.U(1, 1)
				w.U(uint64(len(e.Ext2)), 7)
				w.Bytes(e.Ext2)
			}
		}
		w.Fill(0xff, o.Stuffing)
	}
	return w.Out()
}

// Encode returns header and payload.
func (p *PES) Encode() []byte {
	return append(p.EncodeHeader(), p.Payload...)
}

// TrickFields decodes a DSM trick mode byte per table 2-24: control(3) then, depending on the control value,
// field_id(2) intra_slice_refresh(1) frequency_truncation(2) | rep_cntrl(5) | field_id(2) reserved(3) | reserved(5).
func TrickFields(b uint8) (control, fieldID, intraSlice, freqTrunc, repCntrl uint8) {
	control = b >> 5
	switch control {
	case 0, 3: // fast forward, fast reverse
		fieldID = b >> 3 & 3
		intraSlice = b >> 2 & 1
		freqTrunc = b & 3
	case 1, 4: // slow motion, slow reverse
		repCntrl = b & 0x1f
	case 2: // freeze frame
		fieldID = b >> 3 & 3
	}
	return
}

// TrickByte encodes the trick mode fields, reserved bits set to 1.
func TrickByte(control, fieldID, intraSlice, freqTrunc, repCntrl uint8) uint8 {
	b := control << 5
	switch control {
	case 0, 3:
		b |= fieldID&3<<3 | intraSlice&1<<2 | freqTrunc&3
	case 1, 4:
		b |= repCntrl & 0x1f
	case 2:
		b |= fieldID&3<<3 | 7
	default:
		b |= 0x1f
	}
	return b
}

// HasOptionalHeaderISO reports whether ISO 13818-1 gives the stream id an optional header (table 2-21 syntax).
func HasOptionalHeaderISO(id uint8) bool {
	switch id {
	case 0xbc, 0xbe, 0xbf, 0xf0, 0xf1, 0xff, 0xf2, 0xf8:
		return false
	}
	return true
}

// Encode2 encodes the packet with an explicit PES_packet_length value, truncated to 16 bits.
func (p *PES) Encode2(length int) []byte {
	q := *p
	q.Length = length & 0xffff
	return q.Encode()
}
