package ref

// CRC32MPEG2Step advances a CRC-32/MPEG-2 state by one byte, bit by bit (polynomial 0x04C11DB7, MSB first).
func CRC32MPEG2Step(crc uint32, b byte) uint32 {
	crc ^= uint32(b) << 24
	for i := 0; i < 8; i++ {
		if crc&0x80000000 != 0 {
			crc = crc<<1 ^ 0x04C11DB7
		} else {
			crc <<= 1
		}
	}
	return crc
}

// CRC32MPEG2Update advances a state over a byte string.
func CRC32MPEG2Update(crc uint32, bs []byte) uint32 {
	for _, b := range bs {
		crc = CRC32MPEG2Step(crc, b)
	}
	return crc
}

// CRC32MPEG2 is the checksum of a byte string: initial value 0xFFFFFFFF, no reflection, no final XOR.
func CRC32MPEG2(bs []byte) uint32 { return CRC32MPEG2Update(0xFFFFFFFF, bs) }

// CRC32MPEG2TableEntry is entry i of the byte-wise table, derived bitwise.
func CRC32MPEG2TableEntry(i int) uint32 { return CRC32MPEG2Step(0, byte(i)) }

// AppendCRC appends the big-endian checksum of bs to bs.
func AppendCRC(bs []byte) []byte {
	c := CRC32MPEG2(bs)
	return append(bs, byte(c>>24), byte(c>>16), byte(c>>8), byte(c))
}
