// Package ref holds the reference codecs and models of the verification harness. It is written from
// ISO/IEC 13818-1 and ETSI EN 300 468 and never calls into the library's encoders or decoders.
package ref

// BitWriter writes MSB-first bit fields.
type BitWriter struct {
	buf  []byte
	nbit uint // number of bits used in the last byte (0 = byte aligned)
}

// U writes the n low bits of v, most significant first.
func (w *BitWriter) U(v uint64, n uint) {
	for i := int(n) - 1; i >= 0; i-- {
		bit := byte((v >> uint(i)) & 1)
		if w.nbit == 0 {
			w.buf = append(w.buf, 0)
		}
		w.buf[len(w.buf)-1] |= bit << (7 - w.nbit)
		w.nbit = (w.nbit + 1) % 8
	}
}

// B writes a flag.
func (w *BitWriter) B(b bool) {
	if b {
		w.U(1, 1)
	} else {
		w.U(0, 1)
	}
}

// Bytes writes whole bytes (the writer must be byte aligned).
func (w *BitWriter) Bytes(b []byte) {
	if w.nbit != 0 {
		panic("ref: unaligned byte write")
	}
	w.buf = append(w.buf, b...)
}

// Fill writes n copies of a byte.
func (w *BitWriter) Fill(c byte, n int) {
	for i := 0; i < n; i++ {
		w.Bytes([]byte{c})
	}
}

// Out returns the bytes written (the writer must be byte aligned).
func (w *BitWriter) Out() []byte {
	if w.nbit != 0 {
		panic("ref: unaligned output")
	}
	return w.buf
}

// Len returns the number of whole bytes written.
func (w *BitWriter) Len() int { return len(w.buf) }

// BitReader reads MSB-first bit fields; it records an error instead of panicking when it runs out of data.
type BitReader struct {
	buf []byte
	pos uint // bit position
	Err bool
}

// NewBitReader creates a reader.
func NewBitReader(b []byte) *BitReader { return &BitReader{buf: b} }

// U reads n bits.
func (r *BitReader) U(n uint) uint64 {
	var v uint64
	for i := uint(0); i < n; i++ {
		byteIdx := r.pos / 8
		if int(byteIdx) >= len(r.buf) {
			r.Err = true
			return 0
		}
		bit := (r.buf[byteIdx] >> (7 - r.pos%8)) & 1
		v = v<<1 | uint64(bit)
		r.pos++
	}
	return v
}

// B reads a flag.
func (r *BitReader) B() bool { return r.U(1) == 1 }

// Bytes reads n whole bytes.
func (r *BitReader) Bytes(n int) []byte {
	if r.pos%8 != 0 {
		panic("ref: unaligned byte read")
	}
	o := int(r.pos / 8)
	if n < 0 || o+n > len(r.buf) {
		r.Err = true
		return nil
	}
	r.pos += uint(n) * 8
	return append([]byte{}, r.buf[o:o+n]...)
}

// Off returns the byte offset (reader must be aligned).
func (r *BitReader) Off() int { return int(r.pos / 8) }

// Left returns the number of whole bytes left.
func (r *BitReader) Left() int { return len(r.buf) - int(r.pos/8) }
