package ref

import (
	"fmt"
	"time"

	astits "github.com/asticode/go-astits"
)

// Reference encoders of the descriptors, written from ISO/IEC 13818-1 2.6 and ETSI EN 300 468 6.2 / Annex D. The
// library's public structs are used as the value domain (the property is stated over them); no library code is
// called. Reserved bits are set to 1.

// The redundant Descriptor.Length field is never read here.

func pad3(b []byte) []byte {
	o := make([]byte, 3)
	copy(o, b)
	return o
}

// DVBTimeBytes encodes a UTC time as MJD + BCD hhmmss.
func DVBTimeBytes(t time.Time) []byte {
	t = t.UTC()
	return EncodeDVBTime(t.Year(), int(t.Month()), t.Day(), t.Hour(), t.Minute(), t.Second())
}

// DurationHM encodes a duration as BCD hh mm.
func DurationHM(d time.Duration) []byte {
	m := int(d / time.Minute)
	return []byte{BCD2(m / 60), BCD2(m % 60)}
}

// DurationHMS encodes a duration as BCD hh mm ss.
func DurationHMS(d time.Duration) []byte {
	s := int(d / time.Second)
	return []byte{BCD2(s / 3600), BCD2(s / 60 % 60), BCD2(s % 60)}
}

// VBIReservedBytes is the number of reserved bytes encoded for a VBI data service with a reserved id (EN 300 468 6.2.47
// allows any data_service_descriptor_length there; the decoded value does not keep them).
var VBIReservedBytes = 1

// VBIKnownService reports whether a VBI data_service_id carries line descriptions.
func VBIKnownService(id uint8) bool {
	switch id {
	case 0x01, 0x02, 0x04, 0x05, 0x06, 0x07:
		return true
	}
	return false
}

// DescriptorBody encodes the body (after tag and length) of a descriptor.
func DescriptorBody(d *astits.Descriptor) []byte {
	w := &BitWriter{}
	if d.Tag >= 0x80 && d.Tag <= 0xfe {
		w.Bytes(d.UserDefined)
		return w.Out()
	}
	switch d.Tag {
	case 0x6a: // AC-3, EN 300 468 Annex D
		if x := d.AC3; x != nil {
			w.B(x.HasComponentType)
			w.B(x.HasBSID)
			w.B(x.HasMainID)
			w.B(x.HasASVC)
			w.U(0xf, 4)
			if x.HasComponentType {
				w.U(uint64(x.ComponentType), 8)
			}
			if x.HasBSID {
				w.U(uint64(x.BSID), 8)
			}
			if x.HasMainID {
				w.U(uint64(x.MainID), 8)
			}
			if x.HasASVC {
				w.U(uint64(x.ASVC), 8)
			}
			w.Bytes(x.AdditionalInfo)
		}
	case 0x28: // AVC video
		if x := d.AVCVideo; x != nil {
			w.U(uint64(x.ProfileIDC), 8)
			w.B(x.ConstraintSet0Flag)
			w.B(x.ConstraintSet1Flag)
			w.B(x.ConstraintSet2Flag)
			w.U(uint64(x.CompatibleFlags), 5)
			w.U(uint64(x.LevelIDC), 8)
			w.B(x.AVCStillPresent)
			w.B(x.AVC24HourPictureFlag)
			w.U(0x3f, 6)
		}
	case 0x50: // component
		if x := d.Component; x != nil {
			w.U(uint64(x.StreamContentExt), 4)
			w.U(uint64(x.StreamContent), 4)
			w.U(uint64(x.ComponentType), 8)
			w.U(uint64(x.ComponentTag), 8)
			w.Bytes(pad3(x.ISO639LanguageCode))
			w.Bytes(x.Text)
		}
	case 0x54: // content
		if x := d.Content; x != nil {
			for _, it := range x.Items {
				w.U(uint64(it.ContentNibbleLevel1), 4)
				w.U(uint64(it.ContentNibbleLevel2), 4)
				w.U(uint64(it.UserByte), 8)
			}
		}
	case 0x06: // data stream alignment
		if x := d.DataStreamAlignment; x != nil {
			w.U(uint64(x.Type), 8)
		}
	case 0x7a: // enhanced AC-3
		if x := d.EnhancedAC3; x != nil {
			w.B(x.HasComponentType)
			w.B(x.HasBSID)
			w.B(x.HasMainID)
			w.B(x.HasASVC)
			w.B(x.MixInfoExists)
			w.B(x.HasSubStream1)
			w.B(x.HasSubStream2)
			w.B(x.HasSubStream3)
			for _, f := range []struct {
				on bool
				v  uint8
			}{{x.HasComponentType, x.ComponentType}, {x.HasBSID, x.BSID}, {x.HasMainID, x.MainID}, {x.HasASVC, x.ASVC},
				{x.HasSubStream1, x.SubStream1}, {x.HasSubStream2, x.SubStream2}, {x.HasSubStream3, x.SubStream3}} {
				if f.on {
					w.U(uint64(f.v), 8)
				}
			}
			w.Bytes(x.AdditionalInfo)
		}
	case 0x4e: // extended event
		if x := d.ExtendedEvent; x != nil {
			w.U(uint64(x.Number), 4)
			w.U(uint64(x.LastDescriptorNumber), 4)
			w.Bytes(pad3(x.ISO639LanguageCode))
			n := 0
			for _, it := range x.Items {
				n += 2 + len(it.Description) + len(it.Content)
			}
			w.U(uint64(n), 8)
			for _, it := range x.Items {
				w.U(uint64(len(it.Description)), 8)
				w.Bytes(it.Description)
				w.U(uint64(len(it.Content)), 8)
				w.Bytes(it.Content)
			}
			w.U(uint64(len(x.Text)), 8)
			w.Bytes(x.Text)
		}
	case 0x7f: // extension
		if x := d.Extension; x != nil {
			w.U(uint64(x.Tag), 8)
			if x.Tag == 0x06 {
				if s := x.SupplementaryAudio; s != nil {
					w.B(s.MixType)
					w.U(uint64(s.EditorialClassification), 5)
					w.U(1, 1)
					w.B(s.HasLanguageCode)
					if s.HasLanguageCode {
						w.Bytes(pad3(s.LanguageCode))
					}
					w.Bytes(s.PrivateData)
				}
			} else if x.Unknown != nil {
				w.Bytes(*x.Unknown)
			}
		}
	case 0x0a: // ISO 639 language
		if x := d.ISO639LanguageAndAudioType; x != nil {
			w.Bytes(pad3(x.Language))
			w.U(uint64(x.Type), 8)
		}
	case 0x58: // local time offset
		if x := d.LocalTimeOffset; x != nil {
			for _, it := range x.Items {
				w.Bytes(pad3(it.CountryCode))
				w.U(uint64(it.CountryRegionID), 6)
				w.U(1, 1)
				w.B(it.LocalTimeOffsetPolarity)
				w.Bytes(DurationHM(it.LocalTimeOffset))
				w.Bytes(DVBTimeBytes(it.TimeOfChange))
				w.Bytes(DurationHM(it.NextTimeOffset))
			}
		}
	case 0x0e: // maximum bitrate (units of 50 bytes/s)
		if x := d.MaximumBitrate; x != nil {
			w.U(3, 2)
			w.U(uint64(x.Bitrate/50), 22)
		}
	case 0x40: // network name
		if x := d.NetworkName; x != nil {
			w.Bytes(x.Name)
		}
	case 0x55: // parental rating
		if x := d.ParentalRating; x != nil {
			for _, it := range x.Items {
				w.Bytes(pad3(it.CountryCode))
				w.U(uint64(it.Rating), 8)
			}
		}
	case 0x0f: // private data indicator
		if x := d.PrivateDataIndicator; x != nil {
			w.U(uint64(x.Indicator), 32)
		}
	case 0x5f: // private data specifier
		if x := d.PrivateDataSpecifier; x != nil {
			w.U(uint64(x.Specifier), 32)
		}
	case 0x05: // registration
		if x := d.Registration; x != nil {
			w.U(uint64(x.FormatIdentifier), 32)
			w.Bytes(x.AdditionalIdentificationInfo)
		}
	case 0x48: // service
		if x := d.Service; x != nil {
			w.U(uint64(x.Type), 8)
			w.U(uint64(len(x.Provider)), 8)
			w.Bytes(x.Provider)
			w.U(uint64(len(x.Name)), 8)
			w.Bytes(x.Name)
		}
	case 0x4d: // short event
		if x := d.ShortEvent; x != nil {
			w.Bytes(pad3(x.Language))
			w.U(uint64(len(x.EventName)), 8)
			w.Bytes(x.EventName)
			w.U(uint64(len(x.Text)), 8)
			w.Bytes(x.Text)
		}
	case 0x52: // stream identifier
		if x := d.StreamIdentifier; x != nil {
			w.U(uint64(x.ComponentTag), 8)
		}
	case 0x59: // subtitling
		if x := d.Subtitling; x != nil {
			for _, it := range x.Items {
				w.Bytes(pad3(it.Language))
				w.U(uint64(it.Type), 8)
				w.U(uint64(it.CompositionPageID), 16)
				w.U(uint64(it.AncillaryPageID), 16)
			}
		}
	case 0x56, 0x46: // teletext, VBI teletext
		x := d.Teletext
		if d.Tag == 0x46 {
			x = d.VBITeletext
		}
		if x != nil {
			for _, it := range x.Items {
				w.Bytes(pad3(it.Language))
				w.U(uint64(it.Type), 5)
				w.U(uint64(it.Magazine), 3)
				w.U(uint64(it.Page/10), 4)
				w.U(uint64(it.Page%10), 4)
			}
		}
	case 0x45: // VBI data
		if x := d.VBIData; x != nil {
			for _, s := range x.Services {
				w.U(uint64(s.DataServiceID), 8)
				if VBIKnownService(s.DataServiceID) {
					w.U(uint64(len(s.Descriptors)), 8)
					for _, l := range s.Descriptors {
						w.U(3, 2)
						w.B(l.FieldParity)
						w.U(uint64(l.LineOffset), 5)
					}
				} else {
					// the struct cannot hold the reserved bytes of other services: one reserved byte, as the library
					// writes (VBIReservedBytes lets a parse test use any other conformant count)
					w.U(uint64(VBIReservedBytes), 8)
					for k := 0; k < VBIReservedBytes; k++ {
						w.U(0xff, 8)
					}
				}
			}
		}
	default:
		if d.Unknown != nil {
			w.Bytes(d.Unknown.Content)
		}
	}
	return w.Out()
}

// EncodeDescriptor encodes tag, descriptor_length and body.
func EncodeDescriptor(d *astits.Descriptor) []byte {
	body := DescriptorBody(d)
	if len(body) > 255 {
		panic(fmt.Sprintf("ref: descriptor body of %d bytes", len(body)))
	}
	return append([]byte{d.Tag, byte(len(body))}, body...)
}

// EncodeDescriptors concatenates descriptors.
func EncodeDescriptors(ds []*astits.Descriptor) []byte {
	var b []byte
	for _, d := range ds {
		b = append(b, EncodeDescriptor(d)...)
	}
	return b
}

// EncodeDescriptorLoop encodes reserved(4) loop_length(12) descriptors.
func EncodeDescriptorLoop(ds []*astits.Descriptor) []byte {
	body := EncodeDescriptors(ds)
	if len(body) > 0xfff {
		panic("ref: descriptor loop too long")
	}
	return append([]byte{0xf0 | byte(len(body)>>8), byte(len(body))}, body...)
}

// WalkDescriptorLoop checks, independently of any descriptor semantics, that a loop_length(12)-prefixed descriptor
// loop is made of whole (tag, length, body) triples filling the loop exactly. It returns the (tag, body) pairs and the
// number of bytes consumed.
func WalkDescriptorLoop(b []byte) (tags []uint8, bodies [][]byte, consumed int, err error) {
	if len(b) < 2 {
		return nil, nil, 0, fmt.Errorf("loop length missing")
	}
	l := int(b[0]&0xf)<<8 | int(b[1])
	if 2+l > len(b) {
		return nil, nil, 0, fmt.Errorf("loop length %d exceeds the %d bytes available", l, len(b)-2)
	}
	pos, end := 2, 2+l
	for pos < end {
		if pos+2 > end {
			return nil, nil, 0, fmt.Errorf("descriptor header at %d crosses the loop end %d", pos, end)
		}
		dl := int(b[pos+1])
		if pos+2+dl > end {
			return nil, nil, 0, fmt.Errorf("descriptor (tag %#x, length %d) at %d crosses the loop end %d", b[pos], dl, pos, end)
		}
		tags = append(tags, b[pos])
		bodies = append(bodies, b[pos+2:pos+2+dl])
		pos += 2 + dl
	}
	return tags, bodies, end, nil
}
