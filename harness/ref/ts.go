package ref

import (
	"errors"
	"fmt"
)

// Transport stream packet layer, ISO/IEC 13818-1 2.4.3.2 - 2.4.3.5.

// PCR is a program clock reference: 33-bit base (90 kHz) and 9-bit extension (27 MHz).
type PCR struct {
	Base uint64
	Ext  uint16
}

// LTW is the legal time window of the adaptation field extension.
type LTW struct {
	Valid  bool
	Offset uint16 // 15 bits
}

// Seamless is the seamless splice part of the adaptation field extension.
type Seamless struct {
	Type uint8  // 4 bits
	DTS  uint64 // 33 bits, DTS_next_AU
}

// AFExt is the adaptation field extension.
type AFExt struct {
	Length    int // adaptation_field_extension_length, filled by Encode/Decode
	LTW       *LTW
	Piecewise *uint32 // 22 bits
	Seamless  *Seamless
	Reserved  int // trailing reserved bytes inside the extension (decoder only)
}

// AF is an adaptation field. Empty means adaptation_field_length == 0 (a single stuffing byte).
type AF struct {
	Empty      bool
	Length     int // adaptation_field_length, filled by Encode/Decode
	Disc       bool
	RAI        bool
	ESPrio     bool
	PCR        *PCR
	OPCR       *PCR
	Splice     *uint8
	HasPrivate bool
	Private    []byte
	Ext        *AFExt
	Stuffing   int // number of stuffing bytes
}

// TSPacket is one transport packet.
type TSPacket struct {
	TEI        bool
	PUSI       bool
	Prio       bool
	PID        uint16
	TSC        uint8
	HasAF      bool
	HasPayload bool
	CC         uint8
	AF         *AF
	Payload    []byte
}

// ExtBodySize is the number of bytes after adaptation_field_extension_length.
func (e *AFExt) ExtBodySize() int {
	n := 1
	if e.LTW != nil {
		n += 2
	}
	if e.Piecewise != nil {
		n += 3
	}
	if e.Seamless != nil {
		n += 5
	}
	return n
}

// ContentSize is the number of bytes after adaptation_field_length, without stuffing.
func (a *AF) ContentSize() int {
	if a.Empty {
		return 0
	}
	n := 1
	if a.PCR != nil {
		n += 6
	}
	if a.OPCR != nil {
		n += 6
	}
	if a.Splice != nil {
		n++
	}
	if a.HasPrivate {
		n += 1 + len(a.Private)
	}
	if a.Ext != nil {
		n += 1 + a.Ext.ExtBodySize()
	}
	return n
}

// Size is the total size of the adaptation field including its length byte.
func (a *AF) Size() int {
	if a.Empty {
		return 1
	}
	return 1 + a.ContentSize() + a.Stuffing
}

func writePCR(w *BitWriter, p *PCR) {
	w.U(p.Base, 33)
	w.U(0x3f, 6)
	w.U(uint64(p.Ext), 9)
}

// WriteTimestamp33 writes the 5-byte 4+3+1+15+1+15+1 layout used by PTS, DTS and DTS_next_AU.
func WriteTimestamp33(w *BitWriter, prefix uint8, v uint64) {
	w.U(uint64(prefix), 4)
	w.U(v>>30, 3)
	w.U(1, 1)
	w.U(v>>15, 15)
	w.U(1, 1)
	w.U(v, 15)
	w.U(1, 1)
}

// Encode returns the 188 bytes of the packet. A payload shorter than the room left is followed by 0xFF bytes (as
// PSI packets are); a packet whose parts do not fit is an error.
func (p *TSPacket) Encode() ([]byte, error) {
	w := &BitWriter{}
	w.U(0x47, 8)
	w.B(p.TEI)
	w.B(p.PUSI)
	w.B(p.Prio)
	w.U(uint64(p.PID), 13)
	w.U(uint64(p.TSC), 2)
	w.B(p.HasAF)
	w.B(p.HasPayload)
	w.U(uint64(p.CC), 4)
	if p.HasAF {
		a := p.AF
		if a == nil {
			return nil, errors.New("ref: adaptation field flagged but absent")
		}
		if a.Empty {
			w.U(0, 8)
		} else {
			a.Length = a.ContentSize() + a.Stuffing
			if a.Length > 183 {
				return nil, fmt.Errorf("ref: adaptation_field_length %d > 183", a.Length)
			}
			w.U(uint64(a.Length), 8)
			w.B(a.Disc)
			w.B(a.RAI)
			w.B(a.ESPrio)
			w.B(a.PCR != nil)
			w.B(a.OPCR != nil)
			w.B(a.Splice != nil)
			w.B(a.HasPrivate)
			w.B(a.Ext != nil)
			if a.PCR != nil {
				writePCR(w, a.PCR)
			}
			if a.OPCR != nil {
				writePCR(w, a.OPCR)
			}
			if a.Splice != nil {
				w.U(uint64(*a.Splice), 8)
			}
			if a.HasPrivate {
				w.U(uint64(len(a.Private)), 8)
				w.Bytes(a.Private)
			}
			if e := a.Ext; e != nil {
				e.Length = e.ExtBodySize()
				w.U(uint64(e.Length), 8)
				w.B(e.LTW != nil)
				w.B(e.Piecewise != nil)
				w.B(e.Seamless != nil)
				w.U(0x1f, 5)
				if e.LTW != nil {
					w.B(e.LTW.Valid)
					w.U(uint64(e.LTW.Offset), 15)
				}
				if e.Piecewise != nil {
					w.U(3, 2)
					w.U(uint64(*e.Piecewise), 22)
				}
				if e.Seamless != nil {
					WriteTimestamp33(w, e.Seamless.Type, e.Seamless.DTS)
				}
			}
			w.Fill(0xff, a.Stuffing)
		}
	}
	if p.HasPayload {
		w.Bytes(p.Payload)
	}
	if w.Len() > 188 {
		return nil, fmt.Errorf("ref: packet needs %d bytes", w.Len())
	}
	w.Fill(0xff, 188-w.Len())
	return w.Out(), nil
}

// MustEncode is Encode for packets known to fit.
func (p *TSPacket) MustEncode() []byte {
	b, err := p.Encode()
	if err != nil {
		panic(err)
	}
	return b
}

func readPCR(r *BitReader) *PCR {
	p := &PCR{}
	p.Base = r.U(33)
	r.U(6)
	p.Ext = uint16(r.U(9))
	return p
}

// ReadTimestamp33 reads the 5-byte timestamp layout; it returns the 4-bit prefix, the value and whether the three
// marker bits were all set.
func ReadTimestamp33(r *BitReader) (prefix uint8, v uint64, markers bool) {
	prefix = uint8(r.U(4))
	v = r.U(3) << 30
	m1 := r.U(1)
	v |= r.U(15) << 15
	m2 := r.U(1)
	v |= r.U(15)
	m3 := r.U(1)
	return prefix, v, m1 == 1 && m2 == 1 && m3 == 1
}

// DecodeTS strictly decodes one 188-byte packet: every structural rule of 2.4.3.2-2.4.3.5 that an encoder must obey
// is checked (sync byte, adaptation_field_control, adaptation_field_length range for the control value, optional
// fields inside the field, stuffing bytes 0xFF, extension inside the field).
func DecodeTS(b []byte) (*TSPacket, error) {
	if len(b) != 188 {
		return nil, fmt.Errorf("packet is %d bytes", len(b))
	}
	if b[0] != 0x47 {
		return nil, fmt.Errorf("sync byte is %#02x", b[0])
	}
	r := NewBitReader(b)
	r.U(8)
	p := &TSPacket{}
	p.TEI = r.B()
	p.PUSI = r.B()
	p.Prio = r.B()
	p.PID = uint16(r.U(13))
	p.TSC = uint8(r.U(2))
	p.HasAF = r.B()
	p.HasPayload = r.B()
	p.CC = uint8(r.U(4))
	if !p.HasAF && !p.HasPayload {
		return nil, errors.New("adaptation_field_control 00 is reserved")
	}
	if p.HasAF {
		a := &AF{}
		p.AF = a
		a.Length = int(r.U(8))
		if p.HasPayload && a.Length > 182 {
			return nil, fmt.Errorf("adaptation_field_length %d with payload (max 182)", a.Length)
		}
		if !p.HasPayload && a.Length != 183 {
			return nil, fmt.Errorf("adaptation_field_length %d without payload (must be 183)", a.Length)
		}
		if a.Length == 0 {
			a.Empty = true
		} else {
			end := r.Off() + a.Length
			a.Disc = r.B()
			a.RAI = r.B()
			a.ESPrio = r.B()
			hasPCR, hasOPCR, hasSplice := r.B(), r.B(), r.B()
			a.HasPrivate = r.B()
			hasExt := r.B()
			if hasPCR {
				a.PCR = readPCR(r)
			}
			if hasOPCR {
				a.OPCR = readPCR(r)
			}
			if hasSplice {
				v := uint8(r.U(8))
				a.Splice = &v
			}
			if a.HasPrivate {
				n := int(r.U(8))
				if r.Off()+n > end {
					return nil, fmt.Errorf("transport_private_data_length %d exceeds the adaptation field", n)
				}
				a.Private = r.Bytes(n)
			}
			if hasExt {
				e := &AFExt{}
				a.Ext = e
				e.Length = int(r.U(8))
				eend := r.Off() + e.Length
				if eend > end {
					return nil, fmt.Errorf("adaptation_field_extension_length %d exceeds the adaptation field", e.Length)
				}
				if e.Length < 1 {
					return nil, errors.New("adaptation_field_extension_length 0")
				}
				ltw, pw, ss := r.B(), r.B(), r.B()
				r.U(5)
				if ltw {
					e.LTW = &LTW{Valid: r.B(), Offset: uint16(r.U(15))}
				}
				if pw {
					r.U(2)
					v := uint32(r.U(22))
					e.Piecewise = &v
				}
				if ss {
					t, v, _ := ReadTimestamp33(r)
					e.Seamless = &Seamless{Type: t, DTS: v}
				}
				if r.Off() > eend {
					return nil, errors.New("adaptation field extension parts exceed its length")
				}
				e.Reserved = eend - r.Off()
				r.Bytes(e.Reserved)
			}
			if r.Off() > end || r.Err {
				return nil, errors.New("adaptation field parts exceed adaptation_field_length")
			}
			a.Stuffing = end - r.Off()
			for _, c := range r.Bytes(a.Stuffing) {
				if c != 0xff {
					return nil, fmt.Errorf("stuffing byte %#02x", c)
				}
			}
		}
	}
	if r.Err {
		return nil, errors.New("truncated")
	}
	if p.HasPayload {
		p.Payload = r.Bytes(r.Left())
		if len(p.Payload) == 0 {
			return nil, errors.New("payload flagged but empty")
		}
	}
	return p, nil
}

// SplitPackets cuts a byte stream into 188-byte packets; ok is false when the length is not a multiple of 188.
func SplitPackets(b []byte) (ps [][]byte, ok bool) {
	for len(b) >= 188 {
		ps = append(ps, b[:188])
		b = b[188:]
	}
	return ps, len(b) == 0
}
