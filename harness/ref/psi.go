package ref

import (
	"fmt"

	astits "github.com/asticode/go-astits"
)

// PSI / SI sections: ISO/IEC 13818-1 2.4.4 (PAT, PMT) and ETSI EN 300 468 5.2 (NIT, SDT, EIT, TOT).

// Section is one table section. Exactly one of the data pointers is set; the library's public data structs are the
// value domain. Ext (table_id_extension) is taken from the data struct.
type Section struct {
	TableID     uint8
	Private     bool // private_indicator / reserved_future_use bit
	Version     uint8
	CurrentNext bool
	Number      uint8
	Last        uint8

	PAT *astits.PATData
	PMT *astits.PMTData
	SDT *astits.SDTData
	NIT *astits.NITData
	EIT *astits.EITData
	TOT *astits.TOTData
}

// HasSyntax reports whether the table uses the long section syntax (table_id_extension .. last_section_number).
func (s *Section) HasSyntax() bool { return s.TOT == nil }

// Ext returns the table_id_extension.
func (s *Section) Ext() uint16 {
	switch {
	case s.PAT != nil:
		return s.PAT.TransportStreamID
	case s.PMT != nil:
		return s.PMT.ProgramNumber
	case s.SDT != nil:
		return s.SDT.TransportStreamID
	case s.NIT != nil:
		return s.NIT.NetworkID
	case s.EIT != nil:
		return s.EIT.ServiceID
	}
	return 0
}

func pid13(w *BitWriter, pid uint16) {
	w.U(7, 3)
	w.U(uint64(pid), 13)
}

// Body encodes the table specific part (between the syntax header and the CRC).
func (s *Section) Body() []byte {
	w := &BitWriter{}
	switch {
	case s.PAT != nil:
		for _, p := range s.PAT.Programs {
			w.U(uint64(p.ProgramNumber), 16)
			pid13(w, p.ProgramMapID)
		}
	case s.PMT != nil:
		pid13(w, s.PMT.PCRPID)
		w.Bytes(EncodeDescriptorLoop(s.PMT.ProgramDescriptors))
		for _, es := range s.PMT.ElementaryStreams {
			w.U(uint64(es.StreamType), 8)
			pid13(w, es.ElementaryPID)
			w.Bytes(EncodeDescriptorLoop(es.ElementaryStreamDescriptors))
		}
	case s.SDT != nil:
		w.U(uint64(s.SDT.OriginalNetworkID), 16)
		w.U(0xff, 8)
		for _, sv := range s.SDT.Services {
			w.U(uint64(sv.ServiceID), 16)
			w.U(0x3f, 6)
			w.B(sv.HasEITSchedule)
			w.B(sv.HasEITPresentFollowing)
			l := EncodeDescriptorLoop(sv.Descriptors)
			l[0] = l[0]&0x0f | sv.RunningStatus<<5
			if sv.HasFreeCSAMode {
				l[0] |= 0x10
			}
			w.Bytes(l)
		}
	case s.NIT != nil:
		w.Bytes(EncodeDescriptorLoop(s.NIT.NetworkDescriptors))
		inner := &BitWriter{}
		for _, ts := range s.NIT.TransportStreams {
			inner.U(uint64(ts.TransportStreamID), 16)
			inner.U(uint64(ts.OriginalNetworkID), 16)
			inner.Bytes(EncodeDescriptorLoop(ts.TransportDescriptors))
		}
		w.U(0xf, 4)
		w.U(uint64(inner.Len()), 12)
		w.Bytes(inner.Out())
	case s.EIT != nil:
		w.U(uint64(s.EIT.TransportStreamID), 16)
		w.U(uint64(s.EIT.OriginalNetworkID), 16)
		w.U(uint64(s.EIT.SegmentLastSectionNumber), 8)
		w.U(uint64(s.EIT.LastTableID), 8)
		for _, e := range s.EIT.Events {
			w.U(uint64(e.EventID), 16)
			w.Bytes(DVBTimeBytes(e.StartTime))
			w.Bytes(DurationHMS(e.Duration))
			l := EncodeDescriptorLoop(e.Descriptors)
			l[0] = l[0]&0x0f | e.RunningStatus<<5
			if e.HasFreeCSAMode {
				l[0] |= 0x10
			}
			w.Bytes(l)
		}
	case s.TOT != nil:
		w.Bytes(DVBTimeBytes(s.TOT.UTCTime))
		w.Bytes(EncodeDescriptorLoop(s.TOT.Descriptors))
	}
	return w.Out()
}

// Encode returns the whole section, table_id to CRC_32.
func (s *Section) Encode() []byte {
	body := s.Body()
	n := len(body) + 4
	if s.HasSyntax() {
		n += 5
	}
	if n > 0xfff {
		panic(fmt.Sprintf("ref: section_length %d", n))
	}
	w := &BitWriter{}
	w.U(uint64(s.TableID), 8)
	w.B(s.HasSyntax())
	w.B(s.Private)
	w.U(3, 2)
	w.U(uint64(n), 12)
	if s.HasSyntax() {
		w.U(uint64(s.Ext()), 16)
		w.U(3, 2)
		w.U(uint64(s.Version), 5)
		w.B(s.CurrentNext)
		w.U(uint64(s.Number), 8)
		w.U(uint64(s.Last), 8)
	}
	w.Bytes(body)
	return AppendCRC(w.Out())
}

// SectionLength is the section_length field value.
func (s *Section) SectionLength() int { return len(s.Encode()) - 3 }

// Data returns the DemuxerData the demuxer must deliver for the section (FirstPacket left nil).
func (s *Section) Data(pid uint16) *astits.DemuxerData {
	return &astits.DemuxerData{PID: pid, PAT: s.PAT, PMT: s.PMT, SDT: s.SDT, NIT: s.NIT, EIT: s.EIT, TOT: s.TOT}
}

// PSIUnit builds the payload of a PSI unit: pointer_field, filler bytes, sections.
func PSIUnit(pointer int, filler byte, sections ...[]byte) []byte {
	b := []byte{byte(pointer)}
	for i := 0; i < pointer; i++ {
		b = append(b, filler)
	}
	for _, s := range sections {
		b = append(b, s...)
	}
	return b
}

// TableHasCRC lists the table ids whose sections end with a CRC_32 the demuxer has to verify (the six table types of
// the property).
func TableHasCRC(id uint8) bool {
	switch {
	case id == 0x00, id == 0x02, id == 0x40, id == 0x41, id == 0x42, id == 0x46, id == 0x73:
		return true
	case id >= 0x4e && id <= 0x6f:
		return true
	}
	return false
}

// WalkedSection is what the independent section walker finds at some offset.
type WalkedSection struct {
	TableID uint8
	Start   int // offset of table_id
	End     int // offset after the last byte of the section
	CRCOK   bool
	HasCRC  bool
}

// WalkSections walks a PSI unit payload (starting at pointer_field) the way 2.4.4 prescribes: skip pointer_field
// bytes, then sections back to back until 0xFF stuffing or the end. It verifies CRC_32 bitwise for the table ids that
// carry one. A section that runs past the payload ends the walk with complete=false.
func WalkSections(payload []byte) (secs []WalkedSection, complete bool) {
	if len(payload) == 0 {
		return nil, false
	}
	pos := 1 + int(payload[0])
	for pos < len(payload) {
		id := payload[pos]
		if id == 0xff {
			return secs, true
		}
		if pos+3 > len(payload) {
			return secs, false
		}
		l := int(payload[pos+1]&0xf)<<8 | int(payload[pos+2])
		end := pos + 3 + l
		if end > len(payload) {
			return secs, false
		}
		ws := WalkedSection{TableID: id, Start: pos, End: end, HasCRC: TableHasCRC(id)}
		if ws.HasCRC && l >= 4 {
			ws.CRCOK = CRC32MPEG2(payload[pos:end]) == 0
		}
		secs = append(secs, ws)
		pos = end
	}
	return secs, true
}

// SectionHeaderFields are the generic header fields read back from an encoded long-syntax section.
type SectionHeaderFields struct {
	TableID     uint8
	Syntax      bool
	Private     bool
	Length      int
	Ext         uint16
	Version     uint8
	CurrentNext bool
	Number      uint8
	Last        uint8
}

// ReadSectionHeader reads the generic fields of a long-syntax section (at least 8 bytes).
func ReadSectionHeader(sec []byte) (h SectionHeaderFields, ok bool) {
	if len(sec) < 8 {
		return h, false
	}
	r := NewBitReader(sec)
	h.TableID = uint8(r.U(8))
	h.Syntax = r.B()
	h.Private = r.B()
	r.U(2)
	h.Length = int(r.U(12))
	h.Ext = uint16(r.U(16))
	r.U(2)
	h.Version = uint8(r.U(5))
	h.CurrentNext = r.B()
	h.Number = uint8(r.U(8))
	h.Last = uint8(r.U(8))
	return h, !r.Err
}

// PMTEntry is one elementary stream entry of a decoded PMT.
type PMTEntry struct {
	Type uint8
	PID  uint16
	Desc []byte // raw descriptor loop body
}

// DecodePMT reads PCR PID, program info and stream entries of an encoded PMT section (CRC not checked here).
func DecodePMT(sec []byte) (pcr uint16, progInfo []byte, es []PMTEntry, ok bool) {
	if len(sec) < 16 || sec[0] != 0x02 {
		return 0, nil, nil, false
	}
	end := 3 + (int(sec[1]&0xf)<<8 | int(sec[2])) - 4
	if end > len(sec)-4 || end < 12 {
		return 0, nil, nil, false
	}
	pcr = uint16(sec[8]&0x1f)<<8 | uint16(sec[9])
	pil := int(sec[10]&0xf)<<8 | int(sec[11])
	pos := 12
	if pos+pil > end {
		return 0, nil, nil, false
	}
	progInfo = sec[pos : pos+pil]
	pos += pil
	for pos < end {
		if pos+5 > end {
			return 0, nil, nil, false
		}
		e := PMTEntry{Type: sec[pos], PID: uint16(sec[pos+1]&0x1f)<<8 | uint16(sec[pos+2])}
		l := int(sec[pos+3]&0xf)<<8 | int(sec[pos+4])
		pos += 5
		if pos+l > end {
			return 0, nil, nil, false
		}
		e.Desc = sec[pos : pos+l]
		pos += l
		es = append(es, e)
	}
	return pcr, progInfo, es, true
}

// DecodePAT reads the (program_number, PID) pairs of an encoded PAT section.
func DecodePAT(sec []byte) (progs [][2]uint16, ok bool) {
	if len(sec) < 12 || sec[0] != 0x00 {
		return nil, false
	}
	end := 3 + (int(sec[1]&0xf)<<8 | int(sec[2])) - 4
	if end > len(sec)-4 || (end-8)%4 != 0 {
		return nil, false
	}
	for pos := 8; pos < end; pos += 4 {
		progs = append(progs, [2]uint16{uint16(sec[pos])<<8 | uint16(sec[pos+1]), uint16(sec[pos+2]&0x1f)<<8 | uint16(sec[pos+3])})
	}
	return progs, true
}

// TablePacketSection extracts the single section of a one-packet PSI unit payload (pointer_field 0 expected by the
// caller) and checks that the rest of the payload is 0xFF stuffing. It returns the section bytes.
func TablePacketSection(payload []byte) ([]byte, error) {
	if len(payload) < 4 {
		return nil, fmt.Errorf("payload of %d bytes", len(payload))
	}
	ptr := int(payload[0])
	start := 1 + ptr
	if start+3 > len(payload) {
		return nil, fmt.Errorf("pointer_field %d leaves no room for a section header", ptr)
	}
	l := int(payload[start+1]&0xf)<<8 | int(payload[start+2])
	end := start + 3 + l
	if end > len(payload) {
		return nil, fmt.Errorf("section_length %d runs past the packet (section starts at %d, payload %d bytes)", l, start, len(payload))
	}
	for i := end; i < len(payload); i++ {
		if payload[i] != 0xff {
			return nil, fmt.Errorf("byte %#02x after the section at payload offset %d (section_length %d): the bytes written after section_length do not match it", payload[i], i, l)
		}
	}
	if l < 4 || CRC32MPEG2(payload[start:end]) != 0 {
		return nil, fmt.Errorf("CRC_32 of the section does not verify (section_length %d)", l)
	}
	return payload[start:end], nil
}

// ForeignTableIDs are table ids that may share a PID with the six decoded table types and carry no data the
// library decodes (BAT, RST, ST, TDT, DIT, SIT): a demuxer has to step over them using section_length.
var ForeignTableIDs = []uint8{0x4a, 0x70, 0x71, 0x72, 0x7e, 0x7f}

// ForeignSection frames body as a section of a table id without decoded content.
func ForeignSection(tableID uint8, syntax, private bool, body []byte) []byte {
	w := &BitWriter{}
	w.U(uint64(tableID), 8)
	w.B(syntax)
	w.B(private)
	w.U(3, 2)
	w.U(uint64(len(body)), 12)
	w.Bytes(body)
	return w.Out()
}
