package ref

// Reference packetisation: turning a unit (a PES packet, or a pointer_field + sections PSI payload) into TS packets.

// PktOpts controls PacketizeUnit.
type PktOpts struct {
	// Sizes gives the number of unit bytes carried by each packet (each 1..184, minus what FirstAF needs in the first
	// one); nil means greedy (as many bytes as fit per packet).
	Sizes []int
	// FirstAF is put on the first packet (its Stuffing is overwritten).
	FirstAF *AF
	// PadFF pads a short LAST packet with 0xFF after the payload instead of stuffing through the adaptation field
	// (what PSI does).
	PadFF bool
	// NoPUSI leaves payload_unit_start_indicator clear on the first packet (continuation fragments).
	NoPUSI bool
	Prio   bool
	TSC    uint8
}

// stuffAF returns an adaptation field of exactly size bytes (size >= 1) built on base (nil = none).
func stuffAF(base *AF, size int) *AF {
	if base == nil {
		if size == 1 {
			return &AF{Empty: true}
		}
		return &AF{Stuffing: size - 2}
	}
	a := *base
	a.Stuffing = size - 1 - a.ContentSize()
	if a.Stuffing < 0 {
		panic("ref: adaptation field does not fit")
	}
	return &a
}

// PacketizeUnit cuts data into packets on pid, advancing *cc for every packet.
func PacketizeUnit(pid uint16, data []byte, cc *uint8, o PktOpts) []*TSPacket {
	var out []*TSPacket
	sizes := o.Sizes
	pos := 0
	for i := 0; pos < len(data); i++ {
		var base *AF
		if i == 0 {
			base = o.FirstAF
		}
		room := 184
		if base != nil {
			room -= 1 + base.ContentSize()
		}
		n := room
		if sizes != nil {
			if i >= len(sizes) {
				panic("ref: chunk sizes do not cover the unit")
			}
			n = sizes[i]
		}
		if n > len(data)-pos {
			n = len(data) - pos
		}
		if n > room || n < 1 {
			panic("ref: chunk size out of range")
		}
		*cc = (*cc + 1) & 0xf
		p := &TSPacket{PUSI: i == 0 && !o.NoPUSI, PID: pid, CC: *cc, HasPayload: true, Prio: o.Prio, TSC: o.TSC}
		p.Payload = append([]byte{}, data[pos:pos+n]...)
		pos += n
		last := pos == len(data)
		if n < room && last && o.PadFF {
			for len(p.Payload) < room {
				p.Payload = append(p.Payload, 0xff)
			}
			n = room
		}
		if base != nil || n < 184 {
			p.HasAF = true
			p.AF = stuffAF(base, 184-n)
		}
		out = append(out, p)
	}
	return out
}

// EncodeAll concatenates the encodings of packets.
func EncodeAll(ps []*TSPacket) []byte {
	var b []byte
	for _, p := range ps {
		b = append(b, p.MustEncode()...)
	}
	return b
}

// NullPacket returns a null packet (PID 0x1FFF).
func NullPacket(fill byte) *TSPacket {
	p := &TSPacket{PID: 0x1fff, HasPayload: true, Payload: make([]byte, 184)}
	for i := range p.Payload {
		p.Payload[i] = fill
	}
	return p
}
