// Package conv maps the reference models to the library's public structs.
package conv

import (
	astits "github.com/asticode/go-astits"

	"verifharness/ref"
)

func clock(p *ref.PCR) *astits.ClockReference {
	if p == nil {
		return nil
	}
	return &astits.ClockReference{Base: int64(p.Base), Extension: int64(p.Ext)}
}

// AFStruct builds the library adaptation field for a model. parsed=true fills the fields the parser derives
// (Length, extension Length); parsed=false builds what a caller hands to the writer.
func AFStruct(a *ref.AF, parsed bool) *astits.PacketAdaptationField {
	if a == nil {
		return nil
	}
	o := &astits.PacketAdaptationField{}
	if a.Empty {
		o.IsOneByteStuffing = true
		return o
	}
	if parsed {
		o.Length = a.ContentSize() + a.Stuffing
	}
	o.DiscontinuityIndicator = a.Disc
	o.RandomAccessIndicator = a.RAI
	o.ElementaryStreamPriorityIndicator = a.ESPrio
	o.HasPCR = a.PCR != nil
	o.PCR = clock(a.PCR)
	o.HasOPCR = a.OPCR != nil
	o.OPCR = clock(a.OPCR)
	if a.Splice != nil {
		o.HasSplicingCountdown = true
		o.SpliceCountdown = int(*a.Splice)
	}
	if a.HasPrivate {
		o.HasTransportPrivateData = true
		o.TransportPrivateDataLength = len(a.Private)
		if len(a.Private) > 0 {
			o.TransportPrivateData = append([]byte{}, a.Private...)
		}
	}
	if e := a.Ext; e != nil {
		o.HasAdaptationExtensionField = true
		x := &astits.PacketAdaptationExtensionField{}
		if parsed {
			x.Length = e.ExtBodySize()
		}
		if e.LTW != nil {
			x.HasLegalTimeWindow = true
			x.LegalTimeWindowIsValid = e.LTW.Valid
			x.LegalTimeWindowOffset = e.LTW.Offset
		}
		if e.Piecewise != nil {
			x.HasPiecewiseRate = true
			x.PiecewiseRate = *e.Piecewise
		}
		if e.Seamless != nil {
			x.HasSeamlessSplice = true
			x.SpliceType = e.Seamless.Type
			x.DTSNextAccessUnit = &astits.ClockReference{Base: int64(e.Seamless.DTS)}
		}
		o.AdaptationExtensionField = x
	}
	o.StuffingLength = a.Stuffing
	return o
}

// PacketStruct builds the library packet for a model (see AFStruct for parsed).
func PacketStruct(p *ref.TSPacket, parsed bool) *astits.Packet {
	o := &astits.Packet{
		Header: astits.PacketHeader{
			ContinuityCounter:          p.CC,
			HasAdaptationField:         p.HasAF,
			HasPayload:                 p.HasPayload,
			PayloadUnitStartIndicator:  p.PUSI,
			PID:                        p.PID,
			TransportErrorIndicator:    p.TEI,
			TransportPriority:          p.Prio,
			TransportScramblingControl: p.TSC,
		},
	}
	if p.HasAF {
		o.AdaptationField = AFStruct(p.AF, parsed)
	}
	if p.HasPayload {
		o.Payload = append([]byte{}, p.Payload...)
	}
	return o
}

// StrayAF fills the value fields of a to-be-written adaptation field whose flags are off (a struct the caller reuses and
// only toggles the flags of): the flags, not the values, say what the field carries.
func StrayAF(a *astits.PacketAdaptationField) {
	if a == nil || a.IsOneByteStuffing {
		return
	}
	if !a.HasPCR {
		a.PCR = &astits.ClockReference{Base: 0x155555555, Extension: 0x155}
	}
	if !a.HasOPCR {
		a.OPCR = &astits.ClockReference{Base: 0x0aaaaaaaa, Extension: 0x0aa}
	}
	if !a.HasSplicingCountdown {
		a.SpliceCountdown = 77
	}
	if !a.HasTransportPrivateData {
		a.TransportPrivateData = []byte{1, 2, 3, 4, 5}
		a.TransportPrivateDataLength = 5
	}
	if !a.HasAdaptationExtensionField {
		a.AdaptationExtensionField = &astits.PacketAdaptationExtensionField{HasLegalTimeWindow: true, LegalTimeWindowOffset: 9, HasPiecewiseRate: true, PiecewiseRate: 8}
	} else if x := a.AdaptationExtensionField; x != nil {
		if !x.HasLegalTimeWindow {
			x.LegalTimeWindowIsValid, x.LegalTimeWindowOffset = true, 0x1234
		}
		if !x.HasPiecewiseRate {
			x.PiecewiseRate = 0x123456
		}
		if !x.HasSeamlessSplice {
			x.SpliceType, x.DTSNextAccessUnit = 5, &astits.ClockReference{Base: 0x123456789}
		}
	}
}
