package conv

import (
	astits "github.com/asticode/go-astits"

	"verifharness/ref"
)

func ts33(v *uint64) *astits.ClockReference {
	if v == nil {
		return nil
	}
	return &astits.ClockReference{Base: int64(*v)}
}

// PESOptStruct builds the library's optional header for a model. parsed=true fills what the parser derives
// (MarkerBits, HeaderLength, Extension2Length).
func PESOptStruct(o *ref.PESOpt, parsed bool) *astits.PESOptionalHeader {
	if o == nil {
		return nil
	}
	h := &astits.PESOptionalHeader{
		ScramblingControl:      o.Scrambling,
		Priority:               o.Priority,
		DataAlignmentIndicator: o.Alignment,
		IsCopyrighted:          o.Copyright,
		IsOriginal:             o.Original,
		PTSDTSIndicator:        o.PTSDTSFlags(),
		PTS:                    ts33(o.PTS),
		DTS:                    ts33(o.DTS),
	}
	if parsed {
		h.MarkerBits = 2
		h.HeaderLength = uint8(o.DataLength())
	}
	if o.ESCR != nil {
		h.HasESCR = true
		h.ESCR = &astits.ClockReference{Base: int64(o.ESCR.Base), Extension: int64(o.ESCR.Ext)}
	}
	if o.ESRate != nil {
		h.HasESRate = true
		h.ESRate = *o.ESRate
	}
	if o.Trick != nil {
		h.HasDSMTrickMode = true
		c, f, i, q, r := ref.TrickFields(*o.Trick)
		h.DSMTrickMode = &astits.DSMTrickMode{TrickModeControl: c, FieldID: f, IntraSliceRefresh: i, FrequencyTruncation: q, RepeatControl: r}
	}
	if o.CopyInfo != nil {
		h.HasAdditionalCopyInfo = true
		h.AdditionalCopyInfo = *o.CopyInfo
	}
	if o.CRC != nil {
		h.HasCRC = true
		h.CRC = *o.CRC
	}
	if e := o.Ext; e != nil {
		h.HasExtension = true
		if e.HasPriv {
			h.HasPrivateData = true
			h.PrivateData = append([]byte{}, e.Private...)
		}
		if e.Seq != nil {
			h.HasProgramPacketSequenceCounter = true
			h.PacketSequenceCounter = e.Seq.Counter
			h.MPEG1OrMPEG2ID = e.Seq.MPEG1
			h.OriginalStuffingLength = e.Seq.OrigStuff
		}
		if e.PSTD != nil {
			h.HasPSTDBuffer = true
			h.PSTDBufferScale = e.PSTD.Scale
			h.PSTDBufferSize = e.PSTD.Size
		}
		if e.HasExt2 {
			h.HasExtension2 = true
			h.Extension2Data = append([]byte{}, e.Ext2...)
			if parsed {
				h.Extension2Length = uint8(len(e.Ext2))
			}
		}
	}
	return h
}

// PESStruct builds the library's PESData. For parsed=true, data is the payload the parser must deliver and length
// the PES_packet_length it read.
func PESStruct(p *ref.PES, parsed bool, data []byte, length uint16) *astits.PESData {
	d := &astits.PESData{
		Header: &astits.PESHeader{StreamID: p.StreamID, OptionalHeader: PESOptStruct(p.Opt, parsed)},
		Data:   append([]byte{}, data...),
	}
	if parsed {
		d.Header.PacketLength = length
	}
	return d
}
