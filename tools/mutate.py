#!/usr/bin/env python3
"""Sensitivity by source mutation (never touches /repo: every mutant lives in a scratch copy).

  mutate.py gen  <outdir>            enumerate mutants of /repo's non-test sources, keep those that still compile and
                                     pass the library's own suite ("survivors"), write <outdir>/<id>.diff + index.json
  mutate.py run  <outdir> [ids...]   run the checks mapped to each survivor's file against it; results in results.jsonl

Mutation operators: relational operator replacement, off-by-one on integer literals in shifts/masks/offsets, mask
narrowing, copy -> no-copy reads, boolean literal flip, statement deletion for simple assignments / increments,
branch condition negation.
"""
import concurrent.futures as cf
import hashlib
import json
import os
import re
import shutil
import subprocess
import sys
import tempfile

REPO = "/repo"
ROOT = os.path.dirname(os.path.dirname(os.path.abspath(__file__)))
ENV = dict(os.environ, GOFLAGS="-mod=mod", GOPROXY="off", GOSUMDB="off", GOTOOLCHAIN="local")

FILES = ["packet.go", "data_pes.go", "data_psi.go", "data_pat.go", "data_pmt.go", "data_sdt.go", "data_nit.go", "data_eit.go",
         "data_tot.go", "descriptor.go", "dvb.go", "muxer.go", "demuxer.go", "packet_buffer.go", "packet_pool.go", "data.go",
         "crc32.go", "clock_reference.go", "pools.go", "program_map.go", "wrapping_counter.go"]

CHECKS = {
    "packet.go": "C11,C04,C02", "data_pes.go": "C12,C01,C03", "data_psi.go": "C13,C09,C02",
    "data_pat.go": "C13,C17", "data_pmt.go": "C13,C17,C01", "data_sdt.go": "C13,C03", "data_nit.go": "C13,C03",
    "data_eit.go": "C13,C03", "data_tot.go": "C13,C03", "descriptor.go": "C14,C13,C09", "dvb.go": "C15,C13",
    "muxer.go": "C01,C04,C05,C17,C18", "demuxer.go": "C02,C03,C20,C19,C07", "packet_buffer.go": "C08,C03,C18,C19",
    "packet_pool.go": "C06,C07,C02,C20", "data.go": "C02,C07,C19,C16,C03", "crc32.go": "C10,C09",
    "clock_reference.go": "C12", "pools.go": "C16,C02", "program_map.go": "C02,C17,C20", "wrapping_counter.go": "C05,C17",
}


def mutants_of_line(line):
    """Yield (description, new_line) for one source line."""
    s = line
    code = s.split("//")[0]
    if not code.strip() or code.strip().startswith(("import", "package", "func ", "type ", "}", "case ", "default", "return nil", "err = fmt.Errorf", "\"")):
        if not code.strip().startswith("case "):
            return
    if "fmt.Errorf" in code or "errors.New" in code:
        return
    # relational operators
    for m in re.finditer(r"(?<![<>=!:+\-*/&|^])(<=|>=|==|!=|<|>)(?![<>=])", code):
        op = m.group(1)
        for rep in {"<": ["<=", ">"], "<=": ["<"], ">": [">=", "<"], ">=": [">"], "==": ["!="], "!=": ["=="]}[op]:
            yield ("%s -> %s" % (op, rep), s[:m.start(1)] + rep + s[m.end(1):])
    # shifts: >> n, << n  with n +- 1
    for m in re.finditer(r"(>>|<<)\s*(\d+)", code):
        n = int(m.group(2))
        for d in (-1, 1):
            if n + d >= 0:
                yield ("%s %d -> %d" % (m.group(1), n, n + d), s[:m.start(2)] + str(n + d) + s[m.end(2):])
    # hex masks
    for m in re.finditer(r"0x([0-9a-fA-F]+)", code):
        v = int(m.group(1), 16)
        w = len(m.group(1))
        cands = set()
        if v > 1:
            cands.add(v >> 1)
        cands.add((v << 1 | 1) & ((1 << (4 * w)) - 1) if v else 1)
        if v & (v + 1) == 0 and v > 1:  # all-ones mask: drop the top bit
            cands.add(v >> 1)
        cands.discard(v)
        for c in sorted(cands)[:2]:
            yield ("0x%x -> 0x%x" % (v, c), s[:m.start()] + ("0x%0*x" % (w, c)) + s[m.end():])
    # decimal literals in arithmetic / bit widths
    for m in re.finditer(r"(?<![\w.])(\d+)(?![\w.])", code):
        n = int(m.group(1))
        if n > 4096 or "0x" in code[max(0, m.start() - 2):m.start()]:
            continue
        for d in (-1, 1):
            if n + d >= 0:
                yield ("%d -> %d" % (n, n + d), s[:m.start(1)] + str(n + d) + s[m.end(1):])
    # copy -> no copy
    if "NextBytes(" in code:
        yield ("NextBytes -> NextBytesNoCopy", s.replace("NextBytes(", "NextBytesNoCopy(", 1))
    if "i.Dump()" in code:
        pass
    # boolean literals
    for m in re.finditer(r"\b(true|false)\b", code):
        rep = "false" if m.group(1) == "true" else "true"
        yield ("%s -> %s" % (m.group(1), rep), s[:m.start()] + rep + s[m.end():])
    # && <-> ||
    for m in re.finditer(r"(&&|\|\|)", code):
        rep = "||" if m.group(1) == "&&" else "&&"
        yield ("%s -> %s" % (m.group(1), rep), s[:m.start()] + rep + s[m.end():])
    # statement deletion: simple assignment / increment / call statements on one line
    st = code.strip()
    if re.match(r"^[\w.\[\]]+\s*(=|\+=|-=|\|=)\s*[^=].*$", st) and not st.endswith("{") and ":=" not in st:
        yield ("delete statement", s[:len(s) - len(s.lstrip())] + "// deleted\n" if s.endswith("\n") else "// deleted")
    if re.match(r"^[\w.]+(\+\+|--)$", st):
        yield ("delete statement", s[:len(s) - len(s.lstrip())] + "// deleted\n")
    # + 1 / - 1 removal handled by decimal tweak


CALL_STMT = re.compile(r"^\s*[\w.\[\]]+\((.*)\)\s*(//.*)?$")


def is_simple_stmt(line):
    st = line.split("//")[0].strip()
    if not st or st.endswith("{") or st.startswith(("}", "return", "defer", "if ", "for ", "case ", "default", "var ", "go ", "switch", "else", "break", "continue")):
        return False
    if ":=" in st and "func" in st:
        return False
    return bool(CALL_STMT.match(line)) or bool(re.match(r"^\s*[\w.\[\]]+\s*(=|\+=|-=)\s*[^=].*$", line.split("//")[0]))


def enumerate_mutants():
    round2 = os.environ.get("ROUND") == "2"
    out = []
    for f in FILES:
        lines = open(os.path.join(REPO, f)).read().split("\n")
        for ln, line in enumerate(lines):
            if round2:
                # second round of operators: deletion of call statements, swap of two adjacent simple statements
                if CALL_STMT.match(line) and is_simple_stmt(line) and "fmt.Errorf" not in line:
                    out.append({"file": f, "line": ln + 1, "desc": "delete call", "old": line, "new": line[:len(line) - len(line.lstrip())] + "// deleted call"})
                if ln + 1 < len(lines) and is_simple_stmt(line) and is_simple_stmt(lines[ln + 1]) and line.strip() != lines[ln + 1].strip():
                    out.append({"file": f, "line": ln + 1, "desc": "swap with next statement", "old": line, "new": lines[ln + 1], "swap": True})
                continue
            seen = set()
            for desc, new in mutants_of_line(line):
                new = new.rstrip("\n")
                if new == line or new in seen:
                    continue
                seen.add(new)
                out.append({"file": f, "line": ln + 1, "desc": desc, "old": line, "new": new})
    return out


def make_scratch():
    d = tempfile.mkdtemp(prefix="mut.", dir="/tmp")
    subprocess.run(["rsync", "-a", "--exclude", ".git", REPO + "/", d + "/"], check=True)
    return d


def try_mutant(m):
    d = make_scratch()
    try:
        p = os.path.join(d, m["file"])
        lines = open(p).read().split("\n")
        if m.get("swap"):
            lines[m["line"] - 1], lines[m["line"]] = lines[m["line"]], lines[m["line"] - 1]
        else:
            lines[m["line"] - 1] = m["new"]
        open(p, "w").write("\n".join(lines))
        r = subprocess.run(["go", "build", "./..."], cwd=d, env=ENV, stdout=subprocess.PIPE, stderr=subprocess.STDOUT)
        if r.returncode != 0:
            return "nocompile", None
        r = subprocess.run(["go", "vet", "."], cwd=d, env=ENV, stdout=subprocess.PIPE, stderr=subprocess.STDOUT)
        r = subprocess.run(["go", "test", "-vet=off", "-count=1", "-timeout", "120s", "./..."], cwd=d, env=ENV, stdout=subprocess.PIPE, stderr=subprocess.STDOUT)
        if r.returncode != 0:
            return "killed_by_suite", None
        diff = subprocess.run(["diff", "-u", os.path.join(REPO, m["file"]), p], stdout=subprocess.PIPE, text=True).stdout
        diff = diff.replace(os.path.join(REPO, m["file"]), "a/" + m["file"], 1).replace(p, "b/" + m["file"], 1)
        return "survivor", diff
    finally:
        shutil.rmtree(d, ignore_errors=True)


def gen(outdir):
    os.makedirs(outdir, exist_ok=True)
    ms = enumerate_mutants()
    print("candidates:", len(ms), flush=True)
    index = []
    stats = {}
    with cf.ThreadPoolExecutor(max_workers=int(os.environ.get("PAR", "10"))) as ex:
        for m, (status, diff) in zip(ms, ex.map(try_mutant, ms)):
            stats[status] = stats.get(status, 0) + 1
            if status == "survivor":
                mid = "%s-%d-%s" % (m["file"].replace(".go", ""), m["line"], hashlib.sha1((m["desc"] + m["new"]).encode()).hexdigest()[:6])
                open(os.path.join(outdir, mid + ".diff"), "w").write(diff)
                m["id"] = mid
                index.append(m)
    json.dump(index, open(os.path.join(outdir, "index.json"), "w"), indent=1)
    print(stats, "survivors:", len(index))


def run(outdir, only):
    index = json.load(open(os.path.join(outdir, "index.json")))
    done = set()
    rp = os.path.join(outdir, "results.jsonl")
    if os.path.exists(rp):
        for l in open(rp):
            done.add(json.loads(l)["id"])
    todo = [m for m in index if m["id"] not in done and (not only or m["id"] in only)]
    if os.environ.get("SAMPLE"):
        import random
        random.Random(20260927).shuffle(todo)
        todo = todo[:int(os.environ["SAMPLE"])]
    print("to run:", len(todo), flush=True)

    def one(m):
        ids = CHECKS[m["file"]]
        r = subprocess.run([os.path.join(ROOT, "tools", "try_patch.sh"), os.path.join(outdir, m["id"] + ".diff"), ids, "quick"],
                           stdout=subprocess.PIPE, stderr=subprocess.STDOUT, text=True, env=dict(os.environ, FIRST="1"))
        caught = re.findall(r"^CAUGHT (\S+)", r.stdout, flags=re.M)
        missed = re.findall(r"^MISSED (\S+)", r.stdout, flags=re.M)
        infra = re.findall(r"^INFRA\(\d+\) (\S+)", r.stdout, flags=re.M)
        return {"id": m["id"], "file": m["file"], "line": m["line"], "desc": m["desc"], "old": m["old"].strip(), "new": m["new"].strip(),
                "caught": caught, "missed": missed, "infra": infra}

    with cf.ThreadPoolExecutor(max_workers=int(os.environ.get("PAR", "3"))) as ex:
        for res in ex.map(one, todo):
            open(rp, "a").write(json.dumps(res) + "\n")
            print(res["id"], "CAUGHT" if res["caught"] else ("INFRA" if res["infra"] and not res["missed"] else "MISSED"), ",".join(res["caught"]), flush=True)


if __name__ == "__main__":
    if sys.argv[1] == "gen":
        gen(sys.argv[2])
    elif sys.argv[1] == "run":
        run(sys.argv[2], set(sys.argv[3:]))
    elif sys.argv[1] == "count":
        print(len(enumerate_mutants()))
