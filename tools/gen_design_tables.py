#!/usr/bin/env python3
"""Refresh the generated tables of DESIGN.md (units/budgets from tools/config.py, catch matrix from seeded/*/meta.json)."""
import json, os, re, sys, glob
ROOT = os.path.dirname(os.path.dirname(os.path.abspath(__file__)))
sys.path.insert(0, os.path.join(ROOT, "tools"))
from config import PROPS

def units_table():
    rows = ["| property | unit | engine | quick (shards x cases) | thorough |", "|---|---|---|---|---|"]
    def fmt(x):
        if not x: return "-"
        if "fuzztime" in x: return "native fuzz " + x["fuzztime"]
        if "checks" in x: return "%d x %d" % (x.get("shards", 1), x["checks"])
        return "%d shard(s), full sweep" % x.get("shards", 1)
    for pid in sorted(PROPS):
        for u in PROPS[pid]["units"]:
            eng = "rapid+race" if u.get("race") else ("go fuzz" if u.get("fuzz") else ("rapid" if u.get("rapid", True) else "sweep"))
            rows.append("| %s | %s | %s | %s | %s |" % (pid, u["name"], eng, fmt(u.get("quick")), fmt(u.get("thorough"))))
    return "\n".join(rows)

def matrix_table():
    rows = ["| seeded change | breaks | needs, in order to manifest | caught by (quick tier) |", "|---|---|---|---|"]
    n = own = 0
    for f in sorted(glob.glob(os.path.join(ROOT, "seeded", "*", "meta.json"))):
        m = json.load(open(f))
        n += 1
        ok = m["breaks_property"] in m["caught_by"]
        own += ok
        rows.append("| %s | %s | %s | %s%s |" % (m["id"], m["breaks_property"], m["needs_to_manifest"].replace("|", "/"), " ".join(m["caught_by"]) or "-", "" if ok else " **(not by its own check)**"))
    rows.append("")
    rows.append("%d seeded changes; %d caught by the check of the property they break." % (n, own))
    return "\n".join(rows)

p = os.path.join(ROOT, "DESIGN.md")
s = open(p).read()
episodes = "".join(open(os.path.join(ROOT, "NOTES-episodes.md")).readlines()[2:]).strip("\n")
for name, body in (("UNITS", units_table()), ("MATRIX", matrix_table()), ("EPISODES", episodes)):
    b, e = "<!-- %s-BEGIN -->" % name, "<!-- %s-END -->" % name
    if b in s:
        s = s[:s.index(b) + len(b)] + "\n" + body + "\n" + s[s.index(e):]
open(p, "w").write(s)
print("DESIGN.md tables refreshed")
