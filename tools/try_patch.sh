#!/bin/bash
# tools/try_patch.sh <patch.diff> <ID>[,<ID>...] [tier]   — sensitivity run: apply a patch to a scratch copy of /repo (never /repo itself),
# run the given checks against it, report which ones raise a VIOLATION, remove the copy.
set -u
patch=$(readlink -f "$1"); ids=$2; tier=${3:-quick}
here=$(cd "$(dirname "$0")/.." && pwd)
scratch=$(mktemp -d /tmp/mutrepo.XXXXXX)
rsync -a --exclude .git /repo/ "$scratch/"
if ! (cd "$scratch" && git apply --unsafe-paths --directory="$scratch" "$patch" 2>/dev/null || patch -s -p1 -d "$scratch" < "$patch"); then
  echo "PATCH-FAILED $patch"; rm -rf "$scratch"; exit 3
fi
out=$(mktemp -d /tmp/mutout.XXXXXX)
rc_all=0
for id in ${ids//,/ }; do
  VERIF_REPO="$scratch" VERIF_OUTROOT="$out" "$here/check" "$id" "$tier" > "$out/$id.stdout" 2> "$out/$id.stderr"; rc=$?
  if [ $rc -eq 1 ] && [ -n "${FIRST:-}" ]; then echo "CAUGHT $id $(basename $(dirname "$patch"))/$(basename "$patch") : $(grep -m1 -E 'failed after|panic after|--- FAIL|reference|want' "$out/$id.stderr" | cut -c1-200)"; break; fi
  if [ $rc -eq 1 ]; then echo "CAUGHT $id $(basename $(dirname "$patch"))/$(basename "$patch") : $(grep -m1 -E 'failed after|panic after|--- FAIL|reference|want' "$out/$id.stderr" | cut -c1-200)";
  elif [ $rc -eq 0 ]; then echo "MISSED $id $patch"; rc_all=1;
  else echo "INFRA($rc) $id $patch: $(tail -5 "$out/$id.stderr" | tr '\n' ' ' | cut -c1-400)"; rc_all=2; fi
done
rm -rf "$scratch" "$out" "$here"/.build/checks.$(echo -n "$scratch" | sha1sum | cut -c1-10)* "$here"/.build/alt-$(echo -n "$scratch" | sha1sum | cut -c1-10)*
exit $rc_all
