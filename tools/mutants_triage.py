#!/usr/bin/env python3
"""Classify the mutants the first pass did not catch (see DESIGN 8.5). Prints counts and the unclassified rest."""
import json, re, sys, os, collections
out = sys.argv[1]
res = [json.loads(l) for l in open(os.path.join(out, "results.jsonl"))]
SECOND = {  # caught when re-run with more checks / after a generator was strengthened (re-run recorded in DESIGN 8.5)
    "packet-528-f47356": "C18", "packet-579-f47356": "C18", "packet-584-85c9f2": "C01", "packet-586-f7269e": "C01",
    "packet-436-83a9cb": "C04 (after WritePacket payloads exceeding the room by 1..2 bytes were added)",
    "packet-454-07c972": "C04 (same)", "data-127-7d3943": "C02 (after private near-miss units were added)",
    "data-127-913819": "C02 (same)", "muxer-126-f33b6d": "C01 (non-termination guard)", "muxer-208-4b0393": "C01 (runaway output guard)",
    "muxer-208-f47356": "C01 (runaway output guard)",
}
def classify(r):
    o, n, f, ln = r["old"], r["new"], r["file"], r["line"]
    if r["id"] in SECOND:
        return "second-pass", SECOND[r["id"]]
    if re.match(r"^[A-Z]\w*\s+(\w+\s+)?=\s*(0x[0-9a-fA-F]+|\d+)", o) and f != "muxer.go":
        return "outside", "exported constant that no code path of the listed properties reads"
    if n == "// deleted" and re.match(r"^[A-Z]\w*\s+(\w+\s+)?=", o):
        return "outside", "exported constant (iota-free const block: deletion renumbers nothing used)"
    if re.search(r"&\s*0x[0-9a-f]+\)?\s*> 1", n) and "> 0" in o:
        return "equivalent", "single-bit mask compared with > 1 instead of > 0"
    if "WriteN(uint8(0x7f)" in n:
        return "equivalent", "reserved bits: only the low n <= 7 bits are written"
    if re.search(r"return [0-9], err$", o) or re.search(r"return [0-9], nil$", o) and "default" not in o:
        return "equivalent", "byte count on an error / unreachable path that no caller uses"
    if "WriteBytesN(" in o and o.split(",")[:-1] == n.split(",")[:-1]:
        return "equivalent", "padding byte for codes shorter than their field (language codes are 3 bytes, private data 16 in the domain)"
    if ">= 0" in n and "> 0" in o:
        return "equivalent", "x > 0 vs x >= 0 where the x == 0 branch does nothing (empty slice / zero count)"
    if "<= offsetEnd" in n and "< offsetEnd" in o:
        return "equivalent", "reads an empty remainder instead of skipping it (nil and empty slices are alike)"
    if f == "dvb.go" and ln in (31, 32):
        return "equivalent", "month 13/14 is normalised by time.Date, the k correction is redundant"
    if f == "data_pmt.go" and 112 <= ln <= 122:
        return "equivalent", "calcPMTProgramInfoLength is dead code"
    if f == "data_pmt.go" and ln > 140:
        return "outside", "StreamType helper (IsVideo/IsAudio/String/ToPESStreamID table) not covered by a listed property"
    if f == "descriptor.go" and 836 <= ln <= 845:
        return "outside", "MinimumAge helper"
    if f == "data_pes.go" and (112 <= ln <= 115):
        return "allowed", "IsVideoStream only selects between two PES_packet_length encodings the property both admits"
    if f == "data_pes.go" and 436 <= ln <= 452:
        return "equivalent", "calcPESDataLength is dead code"
    if f == "data_pes.go" and ("PackField" in o or "HasPackHeaderField" in o or 343 <= ln <= 351):
        return "outside", "pack header field (documented as unsupported, excluded from C12)"
    if f in ("packet_pool.go", "pools.go") and ("cap(" in o or "make(" in o):
        return "equivalent", "capacity hint"
    if f == "packet_buffer.go" and ln in (45, 73, 143):
        return "equivalent", "detection window 194 / exactly one packet left / buffer reallocation"
    if f == "wrapping_counter.go":
        return "equivalent", "initial value beyond the wrap point: the first inc() gives 0 either way"
    if f == "muxer.go" and ln in (13, 79):
        return "allowed", "value of the first automatic PID / default retransmit period are not fixed by the property"
    if f == "muxer.go" and ln in (179, 310):
        return "allowed", "more frequent table emissions than required"
    if f == "muxer.go" and ln in (216, 218):
        return "equivalent", "unreachable branch (no adaptation field means the PES header always fits)"
    if f == "muxer.go" and ln == 233:
        return "allowed", "continuity_counter of the adaptation-only packet (C05 speaks of payload-carrying packets)"
    if f == "muxer.go" and ln == 287:
        return "outside", "reset of the caller's StuffingLength after WriteData (documented side effect, no listed property)"
    if f == "demuxer.go" and ln in (70, 204, 217):
        return "equivalent", "logger option / program_number 0 entry pointing at the NIT PID (already a PSI PID) / packet buffer kept across Rewind"
    if f == "data.go" and ln in (154, 165, 180):
        return "equivalent", "unreachable error paths of isPSIComplete / section_length bit 11 on PAT/PMT PIDs (<= 1021 bytes)"
    if f == "data.go" and ln == 127:
        return "equivalent", "start-code test: the shifted operands still have to be all zero"
    if f == "data.go" and ln <= 15:
        return "outside", "exported PID constant not read by the code paths of the listed properties"
    if re.search(r">>\s*\d+\s*&\s*0x", o) and re.search(r"&\s*0x(7|ff)\b", n):
        return "equivalent", "mask wider than the bits left after the shift"
    if f == "data_pes.go" and ln in (418, 467, 670):
        return "equivalent", "byte>>1 is already <= 0x7f / equal case assigns the same value / padding byte"
    if f == "data_psi.go" and ln in (147, 461, 556, 613):
        return "equivalent", "section_length 0/1 never occurs for the six table types / nil slice append / unreachable default"
    if f == "data_nit.go" and ln == 44:
        return "equivalent", "bit 11 of the transport stream loop length cannot be set inside a 1021-byte NIT section"
    if f == "descriptor.go" and ln in (1281, 1667, 1715, 1768):
        return "equivalent", "loop length 1 is not a loop / nil descriptor length / error path into a bytes.Buffer"
    if f == "packet.go" and ln in (229, 250, 508, 454):
        return "equivalent", "zero-length case does nothing"
    return "unclassified", ""

cnt = collections.Counter()
rest = []
for r in res:
    if r["caught"]:
        cnt["caught in the first pass"] += 1
        continue
    c, why = classify(r)
    cnt[c] += 1
    if c == "unclassified":
        rest.append(r)
print(dict(cnt))
for r in rest:
    print("%s:%d [%s]\n    - %s\n    + %s" % (r["file"], r["line"], r["id"], r["old"][:160], r["new"][:160]))
