#!/bin/bash
# tools/bg_thorough.sh [ids...] — run thorough tiers one after the other (meant for `vp run`), print a timing line per property.
cd "$(dirname "$0")/.."
ids=${@:-C01 C02 C03 C04 C05 C06 C07 C08 C09 C10 C11 C12 C13 C14 C15 C16 C17 C18 C19 C20}
for id in $ids; do
  s=$(date +%s)
  ./check $id thorough > /tmp/thor.$id.out 2> /tmp/thor.$id.err; rc=$?
  echo "$id thorough rc=$rc $(( $(date +%s) - s ))s $(python3 -c "import json;e=json.load(open('evidence/$id.json'));print(e['coverage']['evaluations'], e['coverage']['distinct_nontrivial'])")"
  [ $rc -ne 0 ] && { head -c 2500 /tmp/thor.$id.err; head -5 /tmp/thor.$id.out; }
done
