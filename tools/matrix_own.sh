#!/bin/bash
# tools/matrix_own.sh <seeded dir>...  — run each seeded change against the check of the property it breaks (meta.json) and append the
# CAUGHT/MISSED lines to seeded/matrix.log (the full matrix of tools/matrix.sh costs 20 checks per change)
cd "$(dirname "$0")/.."
for d in "$@"; do
  p=$(python3 -c "import json,sys; print(json.load(open('$d/meta.json'))['breaks_property'])")
  echo "$d $p"
done | xargs -P ${PAR:-3} -L1 sh -c 'tools/try_patch.sh $0/patch.diff $1 2>&1 | sed "s|^|$0 |"' >> seeded/matrix.log
