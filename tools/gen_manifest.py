#!/usr/bin/env python3
"""Regenerate MANIFEST.json from tools/config.py (+ manifest_meta below)."""
import json
import os
import subprocess
import sys

ROOT = os.path.dirname(os.path.dirname(os.path.abspath(__file__)))
sys.path.insert(0, os.path.join(ROOT, "tools"))
from config import PROPS  # noqa: E402

ids = [json.loads(l)["id"] for l in open(os.path.join(ROOT, "properties.jsonl"))]


def hook_commits():
    try:
        out = subprocess.run(["git", "-C", "/repo", "log", "--format=%h", "--", "verif_hooks.go"],
                             stdout=subprocess.PIPE, text=True).stdout.split()
        return out[::-1]
    except Exception:
        return []


m = {
    "version": 1,
    "setup_cmd": "python3 tools/driver.py --build && python3 tools/driver.py --selftest",
    "hooks": {
        "guard": "verif",
        "enable": "Go build tag: the harness module (replace github.com/asticode/go-astits => /repo) is compiled with "
                  "`-tags verif`, which adds the add-only file /repo/verif_hooks.go (thin exported wrappers of "
                  "package-private pure functions)",
        "baseline_off_cmd": "cd /repo && GOFLAGS=-mod=mod GOPROXY=off go test -json -vet=off -count=1 -timeout 25m ./...",
        "source_commits": hook_commits(),
        "add_only": True,
    },
    "engines": [{
        "name": "rapid + go test harness",
        "path": "harness/",
        "serves_properties": [p for p in ids if p in PROPS],
        "kind_free_text": "pgregory.net/rapid v1.3.0 property tests (incl. state-machine mode), deterministic exhaustive "
                          "sweeps and native go fuzz targets in one Go module that compiles /repo's working tree through a "
                          "replace directive; sharded and merged by tools/driver.py; oracles = independent reference "
                          "codecs/models in harness/ref",
    }],
    "checks": [],
    "not_applicable": [],
    "notes": "DESIGN.md explains every check; KNOWN_FINDINGS.txt lists open/fixed findings; seeded/ holds the seeded "
             "breaking changes used to test sensitivity. Exit codes: 0 held, 1 violation, 2 inconclusive (infrastructure).",
}
for p in ids:
    if p in PROPS:
        c = PROPS[p]
        chk = {
            "property_id": p,
            "quick_cmd": "./check %s quick" % p,
            "evidence_file": "/verif/evidence/%s.json" % p,
            "replay_cmd_template": "./check %s --replay {path}" % p,
            "engine": "rapid + go test harness",
            "level_claimed": {"category": c["level"], "text": c["level_text"], "design_ref": c.get("design_ref", "DESIGN.md section 3, " + p)},
            "level_note": c["level_note"],
            "technique": c["technique"],
        }
        if any("thorough" in u for u in c["units"]):
            chk["thorough_cmd"] = "./check %s thorough" % p
        m["checks"].append(chk)
    else:
        m["not_applicable"].append({"property_id": p, "reason": "check not built yet (work in progress in this session); "
                                    "the technique applies, see DESIGN.md section 3"})
json.dump(m, open(os.path.join(ROOT, "MANIFEST.json"), "w"), indent=1)
print("MANIFEST.json: %d checks, %d not applicable" % (len(m["checks"]), len(m["not_applicable"])))
