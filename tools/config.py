"""Per-property check configuration: which test units run in which tier, with how many cases and shards.

unit keys:  name, run (go -test.run regex), rapid (default True), race, fuzz (native fuzz target name),
            quick / thorough: {checks, shards, env, timeout, shrinktime, steps, fuzztime}
"""


def det(name, run, quick=None, thorough=None, **kw):
    u = {"name": name, "run": run, "rapid": False}
    u["quick"] = quick if quick is not None else {"shards": 1}
    u["thorough"] = thorough if thorough is not None else {"shards": 1}
    u.update(kw)
    return u


def rap(name, run, qchecks, tchecks, qshards=1, tshards=16, **kw):
    u = {"name": name, "run": run, "rapid": True,
         "quick": {"checks": qchecks, "shards": qshards},
         "thorough": {"checks": tchecks, "shards": tshards}}
    for k in ("qenv", "tenv"):
        if k in kw:
            u["quick" if k == "qenv" else "thorough"]["env"] = kw.pop(k)
    u.update(kw)
    return u


PROPS = {
    "C10": {
        "level": "exploration",
        "level_text": "finite sub-domains (table, single-step (state,byte) pairs - all 2^32 states for byte 0 in the thorough tier - "
                      "and all messages of length <= 2) are enumerated completely against a bitwise reference; longer messages and "
                      "split points are explored with generated inputs. Because the update is one table lookup per byte, the "
                      "enumerated single-step domain covers every step any longer message can take for the enumerated byte values",
        "level_note": "trusts the bitwise reference (validated against the catalogue check value) and the verif-tagged wrappers",
        "technique": "exhaustive enumeration + rapid property test against a bitwise reference CRC",
        "rule": "finite sub-domains enumerated completely (table entries, single-step (state,byte) pairs, all messages of "
                "length 0..2: each enumerated case is distinct by construction) plus rapid-generated messages <= 4 KiB with "
                "every split point (non-trivial = length >= 2, distinct by content); oracle = bitwise CRC-32/MPEG-2",
        "assumptions": ["verif-tagged wrappers VerifComputeCRC32/VerifUpdateCRC32/VerifCRC32Table call the package-private functions unchanged",
                        "reference: bit-by-bit shift register with polynomial 0x04C11DB7, validated against the catalogue check value 0x0376E6E7"],
        "units": [
            det("table", "^TestC10Table$"),
            det("step", "^TestC10Step$"),
            det("short", "^TestC10Short$"),
            rap("split", "^TestC10Split$", 1500, 6000, 2, 16),
        ],
    },
}
