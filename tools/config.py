"""Per-property check configuration: which test units run in which tier, with how many cases and shards.

unit keys:  name, run (go -test.run regex), rapid (default True), race, fuzz (native fuzz target name),
            quick / thorough: {checks, shards, env, timeout, shrinktime, steps, fuzztime}
"""


def det(name, run, quick=None, thorough=None, **kw):
    u = {"name": name, "run": run, "rapid": False}
    u["quick"] = quick if quick is not None else {"shards": 1}
    u["thorough"] = thorough if thorough is not None else {"shards": 1}
    u.update(kw)
    return u


# Calibration: the per-shard case counts written at each unit below were chosen while building (every check then took
# 1-8 s). QSCALE / TSCALE raise them to the budget we actually want: quick <= ~30 s per property on an idle 16-core
# machine, thorough ~ 5-15 min per property.
QSCALE = 4
TSCALE = 3


def rap(name, run, qchecks, tchecks, qshards=1, tshards=16, **kw):
    u = {"name": name, "run": run, "rapid": True,
         "quick": {"checks": qchecks * kw.pop("qscale", QSCALE), "shards": qshards},
         "thorough": {"checks": tchecks * kw.pop("tscale", TSCALE), "shards": tshards}}
    for k in ("qenv", "tenv"):
        if k in kw:
            u["quick" if k == "qenv" else "thorough"]["env"] = kw.pop(k)
    u.update(kw)
    return u


PROPS = {
    "C10": {
        "level": "exploration",
        "level_text": "finite sub-domains (table, single-step (state,byte) pairs - all 2^32 states for byte 0 in the thorough tier - "
                      "and all messages of length <= 2) are enumerated completely against a bitwise reference; longer messages and "
                      "split points are explored with generated inputs. Because the update is one table lookup per byte, the "
                      "enumerated single-step domain covers every step any longer message can take for the enumerated byte values",
        "level_note": "trusts the bitwise reference (validated against the catalogue check value) and the verif-tagged wrappers",
        "technique": "exhaustive enumeration + rapid property test against a bitwise reference CRC",
        "rule": "finite sub-domains enumerated completely (table entries, single-step (state,byte) pairs, all messages of "
                "length 0..2: each enumerated case is distinct by construction) plus rapid-generated messages <= 4 KiB with "
                "every split point (non-trivial = length >= 2, distinct by content); oracle = bitwise CRC-32/MPEG-2",
        "assumptions": ["verif-tagged wrappers VerifComputeCRC32/VerifUpdateCRC32/VerifCRC32Table call the package-private functions unchanged",
                        "reference: bit-by-bit shift register with polynomial 0x04C11DB7, validated against the catalogue check value 0x0376E6E7"],
        "units": [
            det("table", "^TestC10Table$"),
            det("step", "^TestC10Step$"),
            det("short", "^TestC10Short$"),
            rap("split", "^TestC10Split$", 1500, 6000, 2, 16, qscale=2),
            rap("sections", "^TestC10Sections$", 1000, 8000, 4, 16),
        ],
    },
    "C15": {
        "level": "exploration",
        "level_text": "the property's domain is finite and is enumerated: every MJD day x a grid of times of day and every time of day on "
                      "fixed dates for decoding (date and time-of-day are decoded independently), every day x grid (quick) or x all 86400 "
                      "seconds (thorough) for encoding, every BCD duration both ways, every raw bit pattern for panic-freedom",
        "level_note": "trusts the integer calendar arithmetic of harness/ref/dvb.go (cross-checked against the time package for MJD 0..70000 "
                      "and against the Annex C example in setup) and the verif-tagged wrappers; time.Time values are UTC",
        "technique": "exhaustive enumeration of the finite domain against an integer-arithmetic calendar reference",
        "rule": "enumeration: (MJD, time of day) pairs, BCD digit patterns, canonical durations; each enumerated case is distinct by "
                "construction; raw patterns with a non-decimal nibble only count as evaluations (panic-freedom)",
        "assumptions": ["time.Time inputs to the encoder are in UTC with whole seconds",
                        "BCD patterns with a nibble > 9 are outside the property (only required not to panic)"],
        "units": [
            det("decode_time", "^TestC15DecodeTime$"),
            det("encode_time", "^TestC15EncodeTime$", thorough={"shards": 1, "timeout": 3000}),
            det("durations", "^TestC15Durations$"),
            det("through_demuxer", "^TestC15ThroughDemuxer$", quick={"shards": 4}, thorough={"shards": 8}),
        ],
    },
    "C11": {
        "level": "exploration",
        "level_text": "generated search over conformant packets with three oracles per packet (parse of the reference encoding, write against "
                      "the reference encoding, byte-identical re-emission), plus complete enumeration of the small header domains and "
                      "of every single-bit value of every wide field; a pass means no counter-example among those cases",
        "level_note": "trusts harness/ref/ts.go (bit-level encoder written from ISO 13818-1 2.4.3; its decoder is cross-checked against it "
                      "in setup); IsOneByteStuffing is not compared on parse (documented as not part of the TS format)",
        "technique": "rapid property test + deterministic sweeps against an independent bit-level TS packet encoder (round trip and differential)",
        "rule": "rapid-generated and enumerated conformant 188-byte packets; non-trivial = adaptation field with at least one optional part "
                "(rapid) / every enumerated case (sweep); distinct by packet bytes",
        "assumptions": ["conformant packets only: reserved bits 1, stuffing 0xFF, no reserved trailing bytes inside the adaptation field extension",
                        "TransportPrivateDataLength == len(TransportPrivateData) on the write side"],
        "units": [
            rap("packets", "^TestC11Packets$", 30000, 150000, 4, 16, tscale=8),
            det("sweep", "^TestC11Sweep$"),
            rap("write_short", "^TestC11WriteShort$", 5000, 40000, 1, 8),
            rap("stream", "^TestC11Stream$", 5000, 40000, 2, 8),
            {"name": "fuzz_packets", "fuzz": "FuzzC11", "thorough": {"fuzztime": "120s", "timeout": 600}},
        ],
    },
    "C12": {
        "level": "exploration",
        "level_text": "generated search over PES headers against an independent ISO 13818-1 2.4.3.6 encoder: decode direction through the "
                      "Demuxer (any packetisation), encode direction through Muxer.WriteData and an independent TS decoder; small "
                      "sub-domains (trick mode byte, CRC-16, flag bytes, single-bit timestamps) are enumerated; Duration() is checked "
                      "against exact rational arithmetic",
        "level_note": "trusts harness/ref/pes.go; stream ids 0xBC/0xF0/0xF1/0xF2/0xF8/0xFF (ISO and the library's documented rule disagree on "
                      "whether an optional header follows) and the pack header field (marked unsupported in the library) are outside the domain",
        "technique": "rapid property tests + enumeration against an independent PES header encoder; exact big-integer oracle for clock conversion",
        "rule": "rapid-generated PES models (decode: all flag combinations, header stuffing, four PES_packet_length modes; encode: writer-supported "
                "subset, payload sizes around k*184 and 65535) and enumerated sub-domains; non-trivial = >= 2 optional header parts or non-exact "
                "length; distinct by PES bytes",
        "assumptions": ["PTS_DTS_flags '01' (forbidden) and pack_header_field are never generated",
                        "PES private data is 16 bytes on the write side"],
        "units": [
            rap("decode", "^TestC12Decode$", 12000, 100000, 4, 16),
            det("sweep", "^TestC12Sweep$"),
            rap("encode", "^TestC12Encode$", 3000, 25000, 4, 16),
            rap("clock", "^TestC12Clock$", 20000, 200000, 1, 4, qscale=2),
        ],
    },
    "C14": {
        "level": "exploration",
        "level_text": "generated search over descriptor values of all 23 typed tags, unknown and user-defined tags against an independent "
                      "EN 300 468 / ISO 13818-1 encoder (both directions), a structural walk of every written loop, and malformed-descriptor "
                      "loops (directly and inside a PMT through the Demuxer) for the no-shift clause; native fuzzing of the parser in the thorough tier",
        "level_note": "trusts harness/ref/desc.go; library representation conventions are followed where the struct cannot express more (one "
                      "language/type pair in ISO-639, teletext page as two decimal digits, max bitrate in multiples of 50, VBI services with an "
                      "unknown id written with one reserved byte); descriptor bodies <= 255 bytes",
        "technique": "rapid property tests (round trip + differential against an independent descriptor encoder, structural length walk, no-shift metamorphic check) + native fuzzing",
        "rule": "rapid-generated descriptor loops; non-trivial = >= 2 descriptors (parse), body >= 2 bytes (per tag), >= 1 wrong Length field (write), "
                "every malformed-descriptor loop (no-shift); distinct by loop bytes",
        "assumptions": ["verif-tagged wrappers VerifParseDescriptors / VerifWriteDescriptorsWithLength / VerifCalcDescriptorsLength call the private functions unchanged"],
        "units": [
            rap("parse", "^TestC14Parse$", 8000, 60000, 2, 16),
            rap("tags", "^TestC14Tags$", 15000, 100000, 2, 16),
            rap("write", "^TestC14Write$", 8000, 60000, 2, 16),
            rap("noshift", "^TestC14NoShift$", 6000, 50000, 2, 16),
            rap("random_loops", "^TestC14RandomBytes$", 10000, 100000, 2, 16),
            {"name": "fuzz_loops", "fuzz": "FuzzC14", "thorough": {"fuzztime": "120s", "timeout": 600}},
        ],
    },
    "C13": {
        "level": "exploration",
        "level_text": "generated search over table contents of the six table types against an independent ISO 13818-1 / EN 300 468 section "
                      "encoder: through the Demuxer for the delivered structures (any packetisation, multi-section units), through the "
                      "parsePSIData hook for the generic header fields, and byte-for-byte for the PAT/PMT writer",
        "level_note": "trusts harness/ref/psi.go and ref/desc.go; PAT/PMT units obey the stated stream precondition (every section of a unit starts "
                      "in the unit's first packet); the undefined (all-ones) start time is not generated",
        "technique": "rapid property tests: differential against an independent section encoder (decode) and byte-exact comparison (encode)",
        "rule": "rapid-generated table models; non-trivial = a loop with >= 2 items or >= 2 sections (demux), non-zero version/section numbers (header), "
                ">= 2 items or a descriptor (write); distinct by unit/section bytes",
        "assumptions": ["verif-tagged wrappers VerifParsePSIData / VerifWritePSIData call the private functions unchanged",
                        "PSISectionHeader.SectionLength is set by the caller of writePSIData as the Muxer does"],
        "units": [
            rap("demux", "^TestC13Demux$", 6000, 60000, 4, 16),
            rap("header", "^TestC13Header$", 4000, 40000, 2, 16),
            rap("write", "^TestC13Write$", 4000, 40000, 2, 16),
        ],
    },
    "C04": {
        "level": "exploration",
        "level_text": "generated call histories (valid and invalid calls) with the invariant evaluated after every call against an independent "
                      "ISO 13818-1 packet decoder and the byte counts observed by the underlying writer; shrinks to a few calls",
        "level_note": "trusts harness/ref/ts.go (strict decoder) and the reference PES sizes; packets pushed through WritePacket are checked at packet "
                      "level only (their inner consistency is the caller's)",
        "technique": "rapid stateful generation of Muxer call histories + per-call invariant against an independent TS decoder",
        "rule": "rapid-generated operation histories (1..40 calls); non-trivial = a rejected call followed by a successful write and a unit "
                "ending within 2 bytes of a packet boundary; distinct by history (operations, arguments' sizes, results)",
        "assumptions": ["WritePacket PIDs (0x1F00-0x1F0F) are disjoint from elementary stream PIDs"],
        "units": [
            rap("history", "^TestC04History$", 2500, 25000, 4, 16, qscale=10, tscale=20),
        ],
    },
    "C05": {
        "level": "exploration",
        "level_text": "generated call histories biased to counter wrap-around, failing table generation and adaptation fields without room for "
                      "the PES header; continuity checked per PID on the writer's bytes with an independent TS decoder",
        "level_note": "trusts harness/ref/ts.go; tracking of an elementary PID restarts when the stream is (re-)added; PIDs fed through WritePacket are "
                      "the caller's and are not tracked",
        "technique": "rapid stateful generation of Muxer call histories + continuity invariant over the decoded output",
        "rule": "rapid-generated operation histories (1..60 calls, WriteData-heavy); non-trivial = > 16 payload packets on a PID, or a failed table "
                "generation followed by a successful one, or an adaptation field leaving no room for the PES header; distinct by history",
        "assumptions": [],
        "units": [
            rap("history", "^TestC05History$", 2000, 20000, 4, 16, qscale=10, tscale=20),
        ],
    },
    "C01": {
        "level": "exploration",
        "level_text": "generated Muxer call histories whose output is fed to the Demuxer; the oracle is the history itself (reference model "
                      "of what was written: payloads, header models, configuration at each table emission), compared field by field per PID",
        "level_note": "round trip through the library's own writer and reader cannot see an error they share (C11/C12/C13 cover that with "
                      "independent codecs); adaptation fields are compared when they share the first packet with the PES header; "
                      "discontinuity_indicator is never set; stream ids where ISO and the library's rule disagree are not generated",
        "technique": "rapid stateful generation of Muxer histories + mux->demux round-trip oracle against a reference model of the history",
        "rule": "rapid-generated operation histories (1..42 calls); non-trivial = >= 2 PIDs written, >= 1 PES spanning >= 2 packets and >= 1 "
                "adaptation field; distinct by history",
        "assumptions": ["the last PES of a stream incarnation may be lost when the same PID is removed and re-added (new continuity counter)"],
        "units": [
            rap("roundtrip", "^TestC01RoundTrip$", 3000, 25000, 4, 16, qscale=8, tscale=12),
            rap("pmt_fill", "^TestC01PMTFill$", 1500, 15000, 2, 8),
        ],
    },
    "C17": {
        "level": "exploration",
        "level_text": "generated Muxer histories (random up to 200 calls, dedicated >= 33-change histories for the version wrap) plus a "
                      "bounded-exhaustive enumeration of all histories up to length 5 (quick) / 6 (thorough) over a 10-operation alphabet for "
                      "periods 1..3; schedule, content and versioning of the tables are read from the writer's bytes with independent decoders and "
                      "compared with a reference model of the configuration",
        "level_note": "only REQUIRED emissions are asserted (first, within every <period> successful WriteData calls, before RAPs); extra emissions are "
                      "never an alarm; the version rule is asserted for the PMT (the table whose content the operations change); automatic PIDs are "
                      "checked by predicate, not by value (the value is learnt from a scratch Muxer replaying the same Add/Remove calls)",
        "technique": "rapid stateful generation + bounded-exhaustive enumeration of Muxer histories against a reference model of the table logic",
        "rule": "rapid-generated histories: non-trivial = >= 3 emissions with a version change and a periodic retransmission; version-wrap histories: "
                "all; exhaustive unit: every enumerated history is distinct by construction",
        "assumptions": ["PMT too large for one packet and invalid PCR PID make the emission fail; such calls are not required to emit"],
        "units": [
            rap("random", "^TestC17Random$", 1200, 12000, 4, 16, tscale=8),
            rap("version_wrap", "^TestC17VersionWrap$", 150, 1500, 2, 8),
            det("exhaustive", "^TestC17Exhaustive$", quick={"shards": 8}, thorough={"shards": 16, "timeout": 3000}),
        ],
    },
    "C09": {
        "level": "fault_enumeration",
        "level_text": "for every generated unit of sections, every single-bit corruption position of pointer_field, sections and stuffing is "
                      "enumerated (plus sampled byte substitutions, bursts, truncations and insertions) and the Demuxer's outcome is compared with "
                      "an independent section walker with a bitwise CRC; the mux side checks every table packet of generated Muxer histories",
        "level_note": "trusts harness/ref (section walker, bitwise CRC, section encoder); a corruption that the reference decoder itself accepts "
                      "(CRC collision or another valid section) is not judged and is counted",
        "technique": "exhaustive single-bit fault enumeration per generated section + rapid histories, differential against an independent CRC/section walker",
        "rule": "rapid-generated units of 1-2 sections of the six table types x all single-bit flips + sampled multi-bit corruptions; Muxer histories "
                "with descriptor-rich PMTs; non-trivial = every corruption case / a PMT with >= 2 descriptors; distinct by unit payload / history",
        "assumptions": ["WriteTables is expected to succeed exactly when the reference PMT fits one packet and the PCR PID is a configured stream"],
        "units": [
            rap("demux_corruption", "^TestC09Demux$", 250, 1500, 4, 16),
            rap("mux_sections", "^TestC09Mux$", 1500, 15000, 2, 16, tscale=10),
            rap("odd_codes", "^TestC09OddCodes$", 1000, 10000, 2, 16),
        ],
    },
    "C02": {
        "level": "exploration",
        "level_text": "generated stream models packetised by an independent reference multiplexer at arbitrary split points and interleavings; "
                      "the expected per-PID output is computed from the model; plus a deterministic sweep moving a split point through every "
                      "position of one unit of each kind; bytes consumed from the reader are observed for the PAT/PMT clause",
        "level_note": "trusts harness/ref (TS/PES/section encoders, packetiser) and the stated well-formedness preconditions (DESIGN 2.2): every "
                      "section of a unit starts in the unit's first packet, PAT before PMT PIDs, PIDs keep their role",
        "technique": "rapid property test against a reference multiplexer/demultiplexer model + deterministic split-point sweep",
        "rule": "rapid-generated stream models; non-trivial = a unit over >= 3 packets, a multi-section unit and >= 3 PIDs; distinct by stream bytes; "
                "sweep cases are distinct by construction",
        "assumptions": ["delivery order across different PIDs is not asserted (units pending at end of stream are drained per PID)"],
        "units": [
            rap("streams", "^TestC02Streams$", 2500, 25000, 4, 16),
            det("splits", "^TestC02Splits$"),
        ],
    },
    "C18": {
        "level": "fault_enumeration",
        "level_text": "for every generated stream and reader configuration the reader is made to fail at every byte offset; for every generated Muxer "
                      "history the writer is made to fail at every Write call index, permanently and once; the oracle is errors.Is on the returned "
                      "error, the prefix relation with the fault-free output, and the bytes the faulty writer accepted",
        "level_note": "fault positions are exhaustive per generated case (every third offset for 1-byte reads over streams longer than 12 packets); "
                      "with a bufio.Reader the error surfaces when bufio hands it over, so only 'an error wrapping the cause before any ErrNoMorePackets' is asserted there",
        "technique": "exhaustive fault-position enumeration (reader offsets, writer call indices) over rapid-generated streams and histories",
        "rule": "rapid-generated streams x reader configurations x all fault offsets; rapid-generated histories x all Write call indices x {permanent, one-shot}; "
                "non-trivial = every case; distinct by stream bytes + configuration / history",
        "assumptions": [],
        "units": [
            rap("reader", "^TestC18Reader$", 24, 400, 10, 16),
            rap("writer", "^TestC18Writer$", 80, 1200, 6, 16),
        ],
    },
    "C03": {
        "level": "exploration",
        "level_text": "generated hostile inputs (random, mutated well-formed streams, CRC-fixed-up section bodies that reach the table and descriptor "
                      "parsers, hostile PES headers) over the whole configuration matrix, a truncation sweep at every offset, and coverage-guided "
                      "native fuzzing in the thorough tier; the oracle is panic-freedom, per-call progress and bounded termination",
        "level_note": "liveness is reduced to a bounded-steps safety check (<= len(input)+64 calls); progress per call cannot be observed below a "
                      "bufio.Reader; native fuzz campaigns cannot be seeded and a campaign that finds nothing is only that",
        "technique": "rapid property test over structured-then-mutated inputs x configurations, exhaustive truncation sweep, native go fuzzing (thorough)",
        "rule": "rapid-generated inputs x configurations; non-trivial = input >= 2 packets with at least one call returning an error and one returning data; "
                "truncation: every case; distinct by input bytes + configuration; native fuzz executions are reported separately and not counted as distinct",
        "assumptions": ["packet sizes < 188 and bufio.Readers smaller than the 193-byte detection window are outside the property"],
        "units": [
            rap("inputs", "^TestC03Inputs$", 8000, 100000, 4, 16),
            rap("truncation", "^TestC03Truncation$", 12, 150, 10, 16),
            rap("descriptor_lengths", "^TestC03DescriptorLengths$", 150, 1500, 4, 16),
            det("short_sections", "^TestC03ShortSections$"),
            det("skip_run_depth", "^TestC03SkipRunDepth$"),
            {"name": "fuzz_bytes", "fuzz": "FuzzC03", "thorough": {"fuzztime": "150s", "timeout": 600}},
            {"name": "fuzz_sections", "fuzz": "FuzzC03Sections", "thorough": {"fuzztime": "120s", "timeout": 600}},
            {"name": "fuzz_structured", "fuzz": "FuzzC03Structured", "thorough": {"fuzztime": "120s", "timeout": 600}},
        ],
    },
    "C06": {
        "level": "fault_enumeration",
        "level_text": "for every generated stream every single-packet duplication and deletion position is enumerated (and the same positions marked "
                      "with transport_error_indicator), plus random multi-fault patterns (bursts < 16, several duplicates); outputs of the faulted "
                      "stream are compared with the clean stream's per PID under the subsequence / identity relations the property states",
        "level_note": "trusts the reference multiplexer for the unit/packet mapping; a 15-packet burst between packets with identical payload is a "
                      "permitted duplicate and is skipped (counted); finding K1 (fragment beginning 00 00 01 delivered as PES) is listed in KNOWN_FINDINGS.txt",
        "technique": "exhaustive single-fault enumeration + rapid multi-fault patterns with metamorphic/differential oracle (faulted vs clean stream)",
        "rule": "rapid-generated streams x all duplication/deletion/TEI positions; rapid fault patterns; non-trivial = every stream with >= 1 deletion position / "
                "a burst >= 2 or >= 2 faults; distinct by stream bytes (+ fault pattern)",
        "assumptions": ["a deletion is only applied where a later payload packet of the PID exists (otherwise the counter cannot reveal the gap)"],
        "units": [
            rap("single_faults", "^TestC06Single$", 40, 400, 6, 16),
            rap("multi_faults", "^TestC06Multi$", 1500, 15000, 4, 16),
            det("known_finding_probe", "^TestC06KnownK1$"),
            det("abstract_sequences", "^TestC06Abstract$", quick={"shards": 8}, thorough={"shards": 16, "timeout": 3000}),
        ],
    },
    "C07": {
        "level": "exploration",
        "level_text": "metamorphic search: the same per-PID packet sequences are sent in many order-preserving interleavings (random, and every merge "
                      "of two short sequences), alone, and with foreign packets inserted; per-PID outputs must be identical; a corruption campaign "
                      "confined to one PID must leave all other PIDs' outputs identical",
        "level_note": "the relation is between runs of the library itself (metamorphic); agreement with the reference model of each run is C02's job; "
                      "PAT-before-PMT ordering is kept in every merge (stated dependency)",
        "technique": "rapid metamorphic testing over interleavings (random + bounded-exhaustive merges) and single-PID corruption",
        "rule": "rapid-generated per-PID sequences; non-trivial = >= 3 PIDs with >= 2 units on one (merges), every case (all merges), >= 3 corrupted "
                "packets and >= 2 other PIDs (corruption); distinct by stream bytes (+ corruption pattern)",
        "assumptions": [],
        "units": [
            rap("merges", "^TestC07Merges$", 800, 8000, 4, 16),
            rap("all_merges", "^TestC07AllMerges$", 300, 3000, 4, 16),
            rap("corruption", "^TestC07Corruption$", 2500, 25000, 4, 16),
        ],
    },
    "C08": {
        "level": "exploration",
        "level_text": "metamorphic/differential search: each generated stream is demuxed under ~25 combinations of read schedule, reader kind, explicit/"
                      "auto-detected packet size and 188+k framing, and with a read boundary at every offset of the first 400 bytes; all runs must "
                      "equal the reference configuration (explicit 188, bytes.Reader, unfragmented)",
        "level_note": "the relation is between runs of the library (the reference run is checked against the model by C02); with a plain non-seekable "
                      "reader and auto-detection the documented loss of the detection window is accepted and only chunked == unchunked plus "
                      "'returned packets are an unaltered tail of the stream' is asserted; extra bytes of oversized records are never 0x47",
        "technique": "rapid metamorphic testing over read schedules/reader kinds/framings + exhaustive first-read boundary sweep",
        "rule": "rapid-generated streams x configurations; non-trivial = every case; distinct by stream bytes",
        "assumptions": ["a null packet (payload 0xFF) is the first packet so that the 193-byte detection window holds no spurious sync byte"],
        "units": [
            rap("reading", "^TestC08Reading$", 40, 400, 6, 16),
            rap("boundaries", "^TestC08Boundaries$", 2, 20, 8, 16, qscale=2),
            det("tails", "^TestC08Tails$"),
        ],
    },
    "C19": {
        "level": "exploration",
        "level_text": "generated streams x predicates x parser kinds; the skipper is compared with the stream from which the selected packets were "
                      "deleted (decisions computed from the reference decode of every packet), its call log with the reference decode; the parser's "
                      "groups are compared with the per-PID payload packets of the model and the output with the data it returned",
        "level_note": "the PAT group is never replaced or refused by the harness' parser (the demuxer learns PMT PIDs from the PAT data passing through "
                      "it); null/CAT noise is left out of the parser unit because identical null packets are legitimately dropped as duplicates; finding K2 (parser data "
                      "returned with skip=false is delivered for units without default output) is listed in KNOWN_FINDINGS.txt",
        "technique": "rapid metamorphic/differential testing (skipper vs pre-filtered stream; parser call log vs reference model)",
        "rule": "rapid-generated streams; non-trivial = predicate selects some but not all packets / >= 2 PIDs and a multi-packet unit; distinct by stream "
                "bytes + decisions",
        "assumptions": [],
        "units": [
            rap("skipper", "^TestC19Skipper$", 1500, 15000, 4, 16),
            rap("parser", "^TestC19Parser$", 1500, 15000, 4, 16),
            det("known_finding_probe", "^TestC19KnownK2$"),
        ],
    },
    "C20": {
        "level": "exploration",
        "level_text": "for every generated stream the rewind point is enumerated exhaustively (every number of NextData/NextPacket calls from 0 to the "
                      "end, with a second rewind at some points), with explicit and auto-detected packet size; the output after Rewind is compared "
                      "with a fresh Demuxer's",
        "level_note": "bytes.Reader only (Rewind needs a seekable reader); streams keep the PAT before their PMTs and constant PID roles, as the property states",
        "technique": "rapid streams x exhaustive enumeration of the rewind point, differential against a fresh instance",
        "rule": "rapid-generated streams x all rewind points; non-trivial = stream with a multi-packet or multi-section unit (so that some rewind point "
                "is mid-unit or has buffered sections); distinct by stream bytes + configuration",
        "assumptions": [],
        "units": [
            rap("rewind", "^TestC20Rewind$", 150, 1500, 6, 16),
            rap("rewind_hostile", "^TestC20Hostile$", 100, 1000, 4, 16),
        ],
    },
    "C16": {
        "level": "exploration",
        "level_text": "aliasing: every result returned by two alternately driven Demuxers is rendered at delivery and re-rendered after every later "
                      "call (deterministic, strong); Muxer inputs are compared before/after every call; concurrency: generated groups of 2..64 "
                      "goroutines with independent Demuxers/Muxers run under the race detector with drawn start offsets and forced garbage "
                      "collections, each result compared with the same job run alone",
        "level_note": "the concurrency half only sees interleavings that happen: the harness owns neither the Go scheduler nor sync.Pool, so a race that "
                      "needs one rare interleaving can be missed; a race-detector report or a differing/panicking goroutine fails the run",
        "technique": "rapid property tests: snapshot/re-render aliasing oracle; concurrent vs sequential differential under the Go race detector",
        "rule": "rapid-generated stream pairs / histories / job groups; non-trivial = >= 6 results held over >= 12 calls (aliasing), >= 3 WriteData with "
                "payload (muxer inputs), >= 4 goroutines mixing Demuxers and Muxers (concurrent); distinct by input bytes",
        "assumptions": [],
        "units": [
            rap("aliasing", "^TestC16Aliasing$", 300, 3000, 8, 16),
            rap("muxer_inputs", "^TestC16MuxerInputs$", 1000, 10000, 2, 8),
            rap("concurrent", "^TestC16Concurrent$", 25, 300, 4, 8, race=True),
        ],
    },
}
