#!/usr/bin/env python3
"""Summarise a mutation campaign: mutants_report.py <outdir> [--missed]"""
import json, sys, collections, os
out = sys.argv[1]
res = [json.loads(l) for l in open(os.path.join(out, "results.jsonl"))]
tri = {}
tp = os.path.join(os.path.dirname(os.path.dirname(os.path.abspath(__file__))), "seeded", "mutation_triage.json")
if os.path.exists(tp):
    tri = json.load(open(tp))
caught = [r for r in res if r["caught"]]
missed = [r for r in res if not r["caught"] and r["missed"]]
infra = [r for r in res if not r["caught"] and not r["missed"]]
print("run: %d  caught: %d  missed: %d  infra: %d" % (len(res), len(caught), len(missed), len(infra)))
byf = collections.defaultdict(lambda: [0, 0])
for r in res:
    byf[r["file"]][0 if r["caught"] else 1] += 1
for f, (c, m) in sorted(byf.items()):
    print("  %-20s caught %3d  not caught %3d" % (f, c, m))
if "--missed" in sys.argv:
    for r in sorted(missed, key=lambda r: (r["file"], r["line"])):
        t = tri.get(r["id"], "")
        if "--untriaged" in sys.argv and t:
            continue
        print("%s:%d [%s] %s\n    - %s\n    + %s" % (r["file"], r["line"], r["id"], t, r["old"][:150], r["new"][:150]))
