#!/usr/bin/env python3
"""Validate MANIFEST.json and evidence/*.json against the schemas (uses the tooling venv's jsonschema if available)."""
import json, sys, glob, os
try:
    import jsonschema
except ImportError:
    sys.path.insert(0, glob.glob('/opt/veriftools/pyvenv/lib/python3*/site-packages')[0])
    import jsonschema
root = os.path.dirname(os.path.dirname(os.path.abspath(__file__)))
ok = True
m = json.load(open(os.path.join(root, 'MANIFEST.json')))
try:
    jsonschema.validate(m, json.load(open('/root/.vp/MANIFEST.schema.json')))
    print('MANIFEST ok:', len(m['checks']), 'checks,', len(m.get('not_applicable', [])), 'not applicable')
except Exception as e:
    ok = False; print('MANIFEST INVALID', e)
es = json.load(open('/root/.vp/EVIDENCE.schema.json'))
for f in sorted(glob.glob(os.path.join(root, 'evidence', '*.json'))):
    try:
        jsonschema.validate(json.load(open(f)), es)
        print('ok', os.path.basename(f))
    except Exception as e:
        ok = False; print('INVALID', f, str(e)[:300])
ids = {json.loads(l)['id'] for l in open(os.path.join(root, 'properties.jsonl'))}
claimed = {c['property_id'] for c in m['checks']}
na = {c['property_id'] for c in m.get('not_applicable', [])}
if claimed | na != ids or claimed & na:
    ok = False; print('claimed/not_applicable do not partition the properties', sorted(ids - claimed - na), sorted(claimed & na))
sys.exit(0 if ok else 1)
