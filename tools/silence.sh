#!/bin/bash
# tools/silence.sh <tier> <seed>...   — run every check at the given seeds on the unchanged tree; print one line per run.
cd "$(dirname "$0")/.."
tier=$1; shift
for seed in "$@"; do
  for id in C01 C02 C03 C04 C05 C06 C07 C08 C09 C10 C11 C12 C13 C14 C15 C16 C17 C18 C19 C20; do
    s=$(date +%s)
    VERIF_SEED=$seed ./check $id $tier > /tmp/silence.$$.out 2> /tmp/silence.$$.err; rc=$?
    e=$(( $(date +%s) - s ))
    echo "seed=$seed $id $tier rc=$rc ${e}s $(grep -c VIOLATION /tmp/silence.$$.out) violations $(grep -c KNOWN-FINDING /tmp/silence.$$.out) known"
    [ $rc -ne 0 ] && { head -c 3000 /tmp/silence.$$.err; cat /tmp/silence.$$.out | head -5; }
  done
done
rm -f /tmp/silence.$$.*
