#!/usr/bin/env python3
"""Write seeded/<id>/meta.json and seeded/MATRIX.md from seeded/matrix.log (+ the table below)."""
import json
import os
import re
import subprocess

ROOT = os.path.dirname(os.path.dirname(os.path.abspath(__file__)))

# id -> (property, change, what it needs in order to manifest)
INFO = {
    "C01-m1": ("C01", "writePESHeader: the >65535 test is applied to the payload size before the optional header length is added", "non-video PES whose payload is 65529..65535 bytes with a PTS-only header (length field wraps)"),
    "C01-m2": ("C01", "WriteData: bytesAvailable < headerLength became <=", "adaptation field + PES header filling the first packet exactly (one AF size per header size)"),
    "C02-m1": ("C02", "isPSIComplete: Len >= Offset became Len > Offset", "a PAT/PMT section ending exactly on the last byte of its final packet (or followed by exactly one 0xFF)"),
    "C02-m2": ("C02", "payloadOffset ignores an adaptation field of length 0", "a packet carrying exactly 183 payload bytes (adaptation_field_length 0)"),
    "C03-m1": ("C03", "parsePESData: dataEnd<dataStart guard only for bounded PES", "unbounded PES (length 0) whose header length points past the received bytes -> makeslice panic"),
    "C03-m2": ("C03", "failed auto-detection on a bufio.Reader discards only when >= 188 bytes were peeked", "bufio.Reader + auto-detection + fewer than 188 remaining bytes not starting with 0x47 -> spins forever"),
    "C04-m1": ("C04", "WriteData: the AF-only packet's bytes are not added to the returned count", "adaptation field that leaves no room for the PES header"),
    "C04-m2": ("C04", "calcPacketAdaptationFieldSize goes through the uint8 length (wraps)", "adaptation field with >= 254 bytes of private data (WritePacket) / >= 182 (WriteData): partial packet written, then rejected"),
    "C05-m1": ("C05", "WriteTables rollback forgets pmtCC", "WriteTables failing because the PMT is too large, with a successful PMT before and after"),
    "C05-m2": ("C05", "WriteData increments the counter for every packet (also AF-only ones)", "adaptation field leaving no room for the PES header + an earlier payload packet on the PID"),
    "C06-m1": ("C06", "packetAccumulator.add: discontinuity not checked on a PUSI packet", "loss of the tail of a multi-packet unit (next surviving packet has PUSI): truncated unit delivered"),
    "C06-m2": ("C06", "isSameAsPrevious compares payload lengths instead of bytes", "burst of exactly 15 lost packets with equal payload lengths on both sides: spliced unit"),
    "C07-m1": ("C07", "NextData end-of-stream drain: break instead of continue on a parse error", "a unit that fails to parse at end of stream on a lower PID while a higher PID still has a pending unit"),
    "C07-m2": ("C07", "adaptation field private data read with NextBytesNoCopy (aliases the read buffer)", "private data on a unit's first packet + any later packet read afterwards"),
    "C08-m1": ("C08", "auto-detect resync length uses 188 instead of the detected size", "auto-detection on a non-seekable non-bufio reader with 189..192-byte packets"),
    "C08-m2": ("C08", "packetBuffer.next: io.ReadFull became io.ReadAtLeast(.., 188)", "packet size > 188 and a Read boundary inside the trailing extra bytes of a packet"),
    "C09-m1": ("C09", "hasCRC32 omits table_id 0x41 (NIT other)", "a corrupted 0x41 NIT (or a corruption turning another table id into 0x41)"),
    "C09-m2": ("C09", "writeDescriptor returns before writing tag/length when the body is empty", "a zero-length descriptor on an elementary stream: section_length/CRC wrong"),
    "C10-m1": ("C10", "updateCRC32 returns the initial value for an empty slice", "an empty piece fed after the state has left its initial value (split point == len)"),
    "C10-m2": ("C10", "one CRC table entry (0xAB) has two hex digits transposed", "(state>>24)^byte == 0xAB at some position of the message"),
    "C11-m1": ("C11", "LTW offset high byte masked with 0x3f instead of 0x7f", "legal time window offset >= 0x4000"),
    "C11-m2": ("C11", "adaptation field private data read with NextBytesNoCopy", "a packet with private data re-inspected/re-emitted after the demuxer read another packet"),
    "C12-m1": ("C12", "PES private data read with NextBytesNoCopy (aliases the pooled payload buffer)", "PES with extension private data re-inspected after a later NextData"),
    "C12-m2": ("C12", "writeESCR narrows the base to uint32", "ESCR base >= 2^32"),
    "C13-m1": ("C13", "descriptor loop length masked to 10 bits", "a descriptor loop of >= 1024 bytes (only legal in EIT)"),
    "C13-m2": ("C13", "user-defined descriptor bytes read with NextBytesNoCopy", "a PMT/SI table with a user-defined descriptor kept while the demuxer reads further"),
    "C14-m1": ("C14", "parseDescriptors no longer seeks backwards to the declared descriptor end", "declared length shorter than the body the tag implies, followed by other descriptors"),
    "C14-m2": ("C14", "calcDescriptorsLength adds 2+length in uint8", "a descriptor body of exactly 254 or 255 bytes: loop length 256 too small"),
    "C15-m1": ("C15", "parseDVBTime year estimate in integer arithmetic without the .2 guard", "the 34 leap days (29 Feb) decode to 2 March"),
    "C15-m2": ("C15", "writeDVBDurationMinutes truncates to uint8 before the modulo", "durations >= 04:16"),
    "C16-m1": ("C16", "adaptation field private data read with NextBytesNoCopy", "packet with private data + a later read on the same demuxer"),
    "C16-m2": ("C16", "parseData puts the pooled buffer back twice for CAT payloads", "a CAT payload parsed somewhere in the process and >= 2 demuxers running concurrently"),
    "C17-m1": ("C17", "RAP-forced tables additionally require HasPCR", "a mid-period unit on the PCR PID with the random access indicator but no PCR"),
    "C17-m2": ("C17", "RemoveElementaryStream swaps with the last element", ">= 3 streams and removal of one with >= 2 successors: insertion order lost in the PMT"),
    "C18-m1": ("C18", "packetBuffer.next maps n == 0 to ErrNoMorePackets", "reader failing with (0, err) exactly at a packet boundary"),
    "C18-m2": ("C18", "one-byte stuffing fast path swallows the write error", "a packet needing exactly one stuffing byte and the writer failing on exactly that Write"),
    "C19-m1": ("C19", "parseData honours skip only when the parser returned data", "a PacketsParser returning skip=true with no data (swallowing a unit)"),
    "C19-m2": ("C19", "Rewind rebuilds the packet buffer without the skipper", "a skipper + a Rewind after at least one read"),
    "C20-m1": ("C20", "NextData walks the data buffer with a cursor that Rewind does not reset", "a payload yielding >= 3 DemuxerData and a Rewind after 2..n-1 of them were delivered"),
    "C20-m2": ("C20", "Rewind only dumps the lowest pending PID of the pool", ">= 2 PIDs with pending packets and a multiple of 16 packets of the affected PID read before the rewind"),
    # round 2 (agents were told the round-1 changes and asked for multi-step / two-site / less obvious ones)
    "C01-m3": ("C01", "automatic PID assignment skips used PIDs in a single pass over the stream list", "explicit PIDs on the next automatic PIDs added higher-first (0x101 then 0x100), then an automatic Add"),
    "C01-m4": ("C01", "isPSIComplete: Len >= Offset became Offset < Len", "a PMT ending on the last/last-but-one byte of its packet, then a shorter PMT: the pending PMT is overwritten (2 PAT, 1 PMT)"),
    "C02-m3": ("C02", "updateData registers only the programs of the first PAT section of a unit", "a PAT unit of >= 2 sections and a PMT announced only by a later section"),
    "C02-m4": ("C02", "the is-this-a-PSI-PID test is cached when the per-PID accumulator is created", "a PMT PID packet arriving before the PAT announcing it is complete: PMT returned late"),
    "C04-m3": ("C04", "WriteData recomputes payloadStart as payloadBytesWritten == 0", "adaptation field leaving exactly the PES header size in the first packet: two unit starts for one unit"),
    "C04-m4": ("C04", "calcPacketAdaptationFieldLength skips the private data length byte when the data is empty", "private data flag set with empty data: adaptation_field_length one too small"),
    "C06-m3": ("C06", "isSameAsPrevious also compares the adaptation fields by pointer", "duplicate of a packet that carries an adaptation field and is not the first of its unit"),
    "C06-m4": ("C06", "end-of-stream drain: break instead of continue on a parse error", "loss inside the last multi-packet PSI section of a low PID with pending units on higher PIDs"),
    "C09-m3": ("C09", "CRC only checked when section_syntax_indicator is set (or TOT)", "a corruption of exactly bit 7 of section byte 1 (alone or starting a burst)"),
    "C09-m4": ("C09", "calcDescriptorVBIDataLength omits service id 0x07", "VBI data descriptor with service 0x07 and a line count other than 1"),
    "C12-m3": ("C12", "writePESHeader applies the 16-bit test before adding the optional header length", "non-video PES with payload 65529..65535 and an optional header"),
    "C12-m4": ("C12", "writePESHeader writes the optional header whatever the stream id", "stream id 0xBE/0xBF written with a non-nil optional header"),
    "C13-m3": ("C13", "isPSIComplete breaks (complete) when a later section's length bytes have not arrived", "PAT/PMT unit of >= 2 sections where a later section's 3-byte header straddles a packet boundary"),
    "C13-m4": ("C13", "parsePSISection no longer seeks to the section end", "a section type without CRC handling (TDT, BAT, ...) followed by a TOT/SDT in the same unit"),
    "C14-m3": ("C14", "calcDescriptorVBIDataLength treats ids 1..7 as known (includes reserved 0x3)", "VBI data service id 0x3 with a line count other than 1"),
    "C14-m4": ("C14", "descriptor loop length masked to 10 bits", "a descriptor loop >= 1024 bytes (EIT)"),
    "C17-m3": ("C17", "retransmit counter reset before WriteTables is attempted", "an automatic emission that fails (PCR PID not yet valid), then a retry: PES written with no tables in front"),
    "C17-m4": ("C17", "automatic PID assignment skips at most one used PID", ">= 2 explicit consecutive PIDs exactly at the next automatic PID, then an automatic Add"),
    "C19-m3": ("C19", "parsePacket returns before consulting the skipper for packets without payload", "a payload-less packet selected by the predicate (NextPacket returns it, predicate not called)"),
    "C19-m4": ("C19", "end-of-stream drain: break instead of continue on a parse error", "a failing PacketsParser on a unit flushed at end of stream with a pending unit on a higher PID"),
    # round 3 (second pair for the ten properties that had only two; agents were told rounds 1-2 and asked for two-site / stateful slips)
    "C03-m3": ("C03", "NextPacket keeps the packet buffer whose creation (size auto-detection) failed", "auto-detection failing on a hostile head (no second sync byte), then another call: packetSize 0 buffer → panic/spin"),
    "C03-m4": ("C03", "supplementary audio extension descriptor: private-data test `<` became `!=`", "extension descriptor 0x7f/0x06 whose declared length is shorter than its fixed fields: negative NextBytes → makeslice panic"),
    "C05-m3": ("C05", "automatic PID assignment skips at most one used PID (for → if)", ">= 2 consecutive explicit PIDs at the next automatic PID: the automatic Add lands on a PID in use and resets its counter"),
    "C05-m4": ("C05", "cached PAT packet bumped in place; cache not rolled back with patCC on a failed WriteTables", "a failed WriteTables (invalid PCR PID / oversized PMT) between two successful ones: PAT counter repeats"),
    "C07-m3": ("C07", "packet pool keyed by PID & 0x0fff", "two PIDs differing only by bit 12 interleaved in one stream"),
    "C07-m4": ("C07", "shared payload pool grows to 2*size LENGTH instead of capacity", "an unbounded PES/PSI unit > 1 KiB as first big unit: delivered with trailing garbage depending on what other PIDs did before"),
    "C08-m3": ("C08", "payload guard compares the payload offset with 188 instead of the buffer length", "192/204-byte packets whose adaptation field fills the packet: payload = the trailer bytes"),
    "C08-m4": ("C08", "auto-detection scans for the second sync byte from the end of the window", "a 0x47 byte inside the first packet after offset 188+ (any size): wrong size detected"),
    "C10-m3": ("C10", "computeCRC32 one-entry cache stores the caller's slice, not a copy", "the same buffer reused for two different sections (demux of sections of equal length read into one buffer / muxer scratch)"),
    "C10-m4": ("C10", "block-buffered section checksum restarts at every 64-byte block", "any written section longer than 64 bytes"),
    "C11-m3": ("C11", "WritePacket assembles the packet in the muxer's scratch buffer without resetting it on entry", "WritePacket after WriteData/WriteTables on the same Muxer: stale bytes precede the packet"),
    "C11-m4": ("C11", "parsePacket no longer copies the payload of null packets", "PID 0x1fff with a payload"),
    "C15-m3": ("C15", "writeDVBTime: time of day = Unix()%86400 (negative before 1970)", "any instant before 1970-01-01 that is not midnight"),
    "C15-m4": ("C15", "parseDVBTime: MJD → Unix seconds multiplied in int32", "dates after 2038-01-19 or before 1901-12-13"),
    "C16-m3": ("C16", "WritePacket pads the payload with append: 0xff written into the caller's spare capacity", "payload shorter than the room with cap > len"),
    "C16-m4": ("C16", "every Muxer shares the backing array of a package-level default PMT stream list", "two Muxers alive at once, both adding streams: the second one's streams overwrite the first one's PMT"),
    "C18-m3": ("C18", "any reader failure while re-aligning after auto-detection becomes ErrNoMorePackets", "plain (non-bufio, non-seeker) reader failing with its own error between byte 193 and byte 376"),
    "C18-m4": ("C18", "written += n moved before the error check after writePacketAdaptationField", "writer failing inside an adaptation field: reported count exceeds bytes handed to the writer"),
    "C20-m3": ("C20", "pool's last-accumulator shortcut not cleared by Rewind's in-place reset", "stream starting with PES packets of one PID and a Rewind right after a NextData triggered by that PID's PUSI packet"),
    "C20-m4": ("C20", "Rewind replaces the program map after giving the old one to the new pool", "any Rewind followed by a full read: PMT PIDs not recognised as PSI until end-of-stream (order/values differ)"),
    # round 4 (third pair for the ten properties that had no round 3; same brief as round 3)
    "C01-m5": ("C01", "WriteData no longer resets StuffingLength in the caller's adaptation field", "the same PacketAdaptationField struct handed to successive WriteData calls, the earlier PES ending in its first packet"),
    "C01-m6": ("C01", "ISO 639 descriptor Language parsed without copy (aliases the pooled payload buffer)", "a PMT with a language descriptor inspected after later NextData calls"),
    "C02-m5": ("C02", "eager PSI completion widened to the DVB SI PIDs", "SI unit (SDT/EIT/...) of >= 2 sections with a packet boundary exactly at the end of a non-last section, or a first packet holding only the pointer_field"),
    "C02-m6": ("C02", "PES.Data parsed without copy (aliases the pooled payload buffer)", "a PES kept by the caller while NextData is called again"),
    "C04-m5": ("C04", "WriteData returns n instead of bytesWritten when the adaptation-only packet is refused", "a WriteData rejected for an adaptation field > 184 bytes in a call in which tables were due (376 bytes already written, 0 reported)"),
    "C04-m6": ("C04", "writePacket pre-check forgets the sync byte (available = size - 3)", "WritePacket oversize by exactly one byte: header bytes reach the writer before the late check refuses"),
    "C06-m5": ("C06", "continuity distance masked with 0x7", "a burst of exactly 8 lost packets on a PES PID: spliced unit"),
    "C06-m6": ("C06", "isPESPayload checks only the third byte of the start code", "loss of the PUSI packet of a PES unit whose next packet starts xx yy 01 + a plausible header"),
    "C09-m5": ("C09", "CRC bytes reserved only when section_length >= 4 + CRC checked only when the offsets differ", "section_length corrupted to exactly 1..3: table delivered without CRC check"),
    "C09-m6": ("C09", "supplementary audio length counts len(LanguageCode) instead of 3", "extension descriptor 0x7f/0x06 with a language code that is not 3 bytes long: section_length / CRC position wrong"),
    "C12-m5": ("C12", "calcPESOptionalHeaderDataLength counts extension sub-fields even when HasExtension is false", "optional header with HasExtension=false and a sub-field flag (private data, sequence counter, P-STD, extension 2) set in the struct"),
    "C12-m6": ("C12", "parsePESData rejects dataEnd == dataStart", "a PES with header only (zero payload bytes)"),
    "C13-m5": ("C13", "updateData stops at the first PAT section of a unit", "a PAT unit of >= 2 sections and a PMT announced only by a later section: PMT never decoded"),
    "C13-m6": ("C13", "parseDVBTime year constant 15078.2 -> 15078", "EIT/TOT times on 29 February: decoded as 2 March"),
    "C14-m5": ("C14", "parseDescriptors loop guard Offset()+2 < offsetEnd", "a zero-length descriptor at the end of its loop: dropped, the following entries mis-parsed"),
    "C14-m6": ("C16", "ISO 639 descriptor Language parsed without copy (asked for C14: the decoded value is right when returned, what breaks is that it changes later - C16's subject)", "a PMT with a language descriptor kept while NextData is called again"),
    "C17-m5": ("C17", "WriteTables rollback snapshot reads patVersion twice", "PMT version >= 1, then a failed emission, then a successful one: version repeats or goes back"),
    "C17-m6": ("C17", "initial retransmit counter set before the options run", "MuxerOptTablesRetransmitPeriod >= 42 and a first unit without random-access on the PCR PID: no tables before the first PES"),
    "C19-m5": ("C19", "DemuxerOptPacketSize creates the packet buffer at once, capturing the skipper set so far", "explicit packet size option given before the skipper option"),
    "C19-m6": ("C19", "parseData appends the default PES data to what the parser returned", "a parser returning data with skip=false on a PES unit"),
    # round 5 (third pair for the ten properties of round 3)
    "C03-m5": ("C03", "NextData mid-stream guard len(ps) == 0 became ps == nil", "a packet that is both a payload-unit start and a discontinuity (indicator or counter gap on a non-empty queue): empty group reaches parseData → index out of range"),
    "C03-m6": ("C03", "hasPSISyntaxHeader excludes table id 0x6f while the EIT dispatch still accepts it", "a section with table_id 0x6f on a PSI PID: nil syntax header dereferenced"),
    "C05-m5": ("C05", "last-esContext cache in WriteData left stale by a failed lookup", "write A, failed write on unknown X, add X, write X: X's packets consume A's counter"),
    "C05-m6": ("C05", "automatic PID skip loop no longer avoids the PMT PID", "the 3841st automatic assignment of a Muxer's life lands on 0x1000: stream and PMT share a PID"),
    "C07-m5": ("C07", "one-entry accumulator cache keyed before the TEI / payload-less early returns", "payload packet of X, ignored (TEI or adaptation-only) packet of Y, payload packet of Y: Y's packet lands in X's accumulator"),
    "C07-m6": ("C19", "packet buffer reuses the struct of a skipped packet without clearing its adaptation field (asked for C07; needs a PacketSkipper, the subject of C19)", "a skipped packet with an adaptation field directly followed by a delivered packet without one"),
    "C08-m5": ("C08", "bufio branch of peek returns before the EOF normalisation", "bufio.Reader + auto-detection on an input of one packet plus 1..4 bytes, or empty, or after read-to-end + Rewind"),
    "C08-m6": ("C08", "NextPacket compares the packet-buffer creation error by identity instead of errors.Is", "auto-detection on an input shorter than one packet: a wrapped error instead of ErrNoMorePackets"),
    "C10-m5": ("C10", "running checksum of writePSISection kept in a pooled hasher that is reset only when the CRC is read", "a section write abandoned part-way (writer error) followed by a good one: wrong CRC"),
    "C10-m6": ("C10", "updateCRC32 treats a running value of 0 as not started", "a piece boundary exactly where the running CRC is 0"),
    "C11-m5": ("C11", "calcPacketAdaptationFieldSize trusts the parse-time Length when it is set", "a packet struct whose derived Length is stale (parsed, then edited) handed to WritePacket"),
    "C11-m6": ("C16", "writePacket pads by appending 0xff to the caller's payload slice (asked for C11: the packet written is right; what breaks is the caller's memory behind a short payload - C16's subject)", "payload shorter than the room, with spare capacity"),
    "C15-m5": ("C15", "writeDVBTime year term (year-l)*365 + year/4", "January/February of leap years: MJD one day too large"),
    "C15-m6": ("C15", "parseDVBTime caches the last MJD keyed by a no-copy window on the caller's buffer", "two different dates decoded from the same buffer at the same offset"),
    "C16-m5": ("C16", "parental rating descriptor items read without copy", "a PMT/EIT with descriptor 0x55 kept while further payloads are assembled"),
    "C16-m6": ("C16", "zero-length adaptation fields parsed into one shared package-level object", "two packets with a one-byte adaptation field; the field of one handed to a Muxer whose writer fails (StuffingLength left set)"),
    "C18-m5": ("C18", "writePacketAdaptationFieldExtension returns only the seamless-splice write result", "extension with seamless splice and a writer failing once on one of the extension header bytes"),
    "C18-m6": ("C18", "bufio Peek error cleared when more than 188 bytes were obtained", "bufio.Reader + auto-detection, underlying reader failing once at offset 189..192"),
    "C20-m5": ("C20", "packet buffer latches 'truncated' and Rewind keeps the buffer when the size is explicit", "explicit packet size, input ending in the middle of a packet, Rewind after the end was reached"),
    "C20-m6": ("C20", "PAT programme 0 (network PID) enters the programme map, which Rewind never resets", "PAT with a programme-0 entry naming a PID of its own, a section on that PID before the PAT, Rewind after the PAT was parsed"),
    # round 6 (all twenty properties; the brief asked for state surviving between calls, objects the caller reuses, degenerate inputs, option order)
    "C01-m7": ("C17", "retransmit counter reset before WriteTables is attempted inside WriteData (asked for C01: no PES or table is lost or altered, only fewer emissions - C17's subject; same slip as C17-m3)", "a WriteData rejected for an invalid PCR PID while tables were due, then a successful one: no tables in front of it"),
    "C01-m8": ("C01", "continuity counter incremented for the payload-less packet carrying an oversized adaptation field", "adaptation field leaving no room for the PES header, with an earlier PES pending on the PID: the demuxer sees a gap and drops it"),
    "C02-m7": ("C08", "packet size auto-detection takes the LAST sync byte of the window (asked for C02; needs auto-detection, the subject of C08)", "0x47 among bytes 1..4 of the second packet (PID 0x..47, PID 0x07xx with PUSI, adaptation_field_length 0x47)"),
    "C02-m8": ("C02", "end-of-stream flush returns ErrNoMorePackets after the first dumped PID that yields no data", "a PID yielding nothing (CAT, TDT, private data) numerically below a PID whose last unit is pending"),
    "C03-m7": ("C03", "end-of-stream drain: break instead of continue on a parse error (end not final)", ">= 2 PIDs pending at the end, the lower one failing to parse, and calls after ErrNoMorePackets"),
    "C03-m8": ("C03", "peek uses Read instead of ReadFull for non-bufio readers", "auto-detection on a reader whose first Read returns fewer than 188 bytes"),
    "C04-m7": ("C04", "StuffingLength reset at the end of WriteData guarded by writeAf (never true there)", "the same adaptation field struct handed to successive calls, a tiny unit then one with a bigger PES header"),
    "C04-m8": ("C04", "written += len(p.Payload) moved out of the HasPayload block", "WritePacket with HasPayload=false, a short adaptation field and bytes left in Payload: 188 reported, fewer written"),
    "C05-m7": ("C05", "esContexts keyed by PID & 0x0fff", "two streams whose PIDs differ only by bit 12"),
    "C05-m8": ("C05", "esContext cached in the caller's MuxerData and never invalidated", "a MuxerData kept across Remove + Add of its PID (or handed to two Muxers) next to a fresh one"),
    "C06-m7": ("C06", "duplicate check against the last payload packet of ANY PID", "a duplicate separated from its original by a packet of another PID"),
    "C06-m8": ("C06", "accumulator cache indexed by PID & 63 without checking the PID", "two PIDs equal modulo 64: a loss on one resets the other's queue"),
    "C07-m7": ("C07", "duplicate check against the previous packet of the stream instead of the PID", "a duplicate inside a multi-packet unit with another PID's (or a null) packet in between"),
    "C07-m8": ("C07", "recycled queue storage stays on offer after a failed NextData", "a unit of X that fails to parse, then a unit start on Y: X and Y share a backing array"),
    "C08-m7": ("C08", "relative seek back over 193 bytes after auto-detection on a seekable reader", "seekable reader, auto-detection, input of 189..192 bytes"),
    "C08-m8": ("C08", "hand-written read loop checks io.EOF before the packet is complete", "a reader that returns the final bytes together with io.EOF"),
    "C09-m7": ("C09", "calcDescriptorLength trusts a non-zero Descriptor.Length", "a descriptor whose redundant Length is stale (edited after parsing)"),
    "C09-m8": ("C16", "ISO 639 descriptor Language parsed without copy (asked for C09: the table is right when delivered and changes later - C16's subject; same slip as C14-m6)", "a PMT with a language descriptor kept while NextData is called again"),
    "C10-m7": ("C10", "running CRC hoisted into writePSIData and not re-initialised between sections", "a PSIData of >= 2 sections written in one call"),
    "C10-m8": ("C10", "writePSISection emits a non-zero PSISection.CRC32 as it is", "a parsed section edited and written again (stale CRC32 field)"),
    "C11-m7": ("C11", "private data length byte only written when the length is > 0", "transport_private_data_flag set with zero bytes of data"),
    "C11-m8": ("C07", "packet buffer's reused iterator not rewound on the error path (asked for C11: conformant packets in isolation are unaffected; a damaged packet on one PID makes every later packet fail - C07's subject)", "NextPacket called again after a packet was rejected"),
    "C12-m7": ("C12", "PES detection looks at the first TS packet only", "first packet's adaptation field leaving 0..2 payload bytes: the start code straddles two packets"),
    "C12-m8": ("C12", "extension-2 size taken from Extension2Length instead of len(Extension2Data)", "a header whose redundant Extension2Length disagrees with the data handed in (zero, or stale)"),
    "C13-m7": ("C13", "calcDescriptorsLength adds in uint8", "a descriptor of 254 or 255 content bytes: loop lengths 256 too small"),
    "C13-m8": ("C02", "isPSIComplete: Len() > Offset() (asked for C13: the tables that are delivered decode correctly; a unit filling its packets exactly is delivered late or dropped - C02's subject; close to C01-m4)", "PAT/PMT unit of exactly 184k or 184k-1 bytes"),
    "C14-m7": ("C14", "user-defined tag test written tag & 0x80 != 0", "tag 0xff with a non-empty body"),
    "C14-m8": ("C14", "VBI reserved service ids skip one byte instead of data_service_descriptor_length", "a reserved VBI service with 0 or >= 2 reserved bytes followed by another service"),
    "C15-m7": ("C15", "writeDVBTime memo keyed by a 16-bit date with a 7-bit year", "a date encoded right after the same day 128 years away"),
    "C15-m8": ("C15", "parseDVBTime memo whose key is updated before the step that can fail", "a complete field decoded right after a truncated field of the same day"),
    "C16-m7": ("C16", "bytesPooler.get returns early for size 0, keeping the previous content", "a packet flagged with payload whose adaptation field fills it (zero-byte unit) after another payload used the pooled buffer"),
    "C16-m8": ("C16", "parseDVBTime memoises in an unsynchronised package-level struct", ">= 2 demuxers decoding DVB times concurrently"),
    "C17-m7": ("C18", "WriteTables ignores the error of the PMT write (asked for C17; needs a failing writer, the subject of C18)", "the writer refusing exactly the second write of a table emission"),
    "C17-m8": ("C17", "a rejected AddElementaryStream still marks the PMT updated", "emission, Add rejected as duplicate, emission: version moves although nothing changed"),
    "C18-m7": ("C18", "error of the adaptation-only packet write dropped in WriteData", "oversized adaptation field and a writer failing once during that packet"),
    "C18-m8": ("C18", "0xff padding written through a batch whose error is never read", "WritePacket with a short payload and a writer failing on a padding byte"),
    "C19-m7": ("C19", "one Packet struct recycled across skipped packets, AdaptationField never reset", "a skipped packet with an adaptation field followed by a packet without one"),
    "C19-m8": ("C19", "data buffer aliases the parser's slice and slots are nil-ed as they are popped", "a skip=true parser answering several units with one and the same slice of >= 2 items"),
    "C20-m7": ("C20", "detected packet size written back into the option, so detection is skipped after Rewind", "auto-detection, a corrupted first sync byte, >= 2 calls before the Rewind"),
    "C20-m8": ("C20", "reader errors latched in the Demuxer and not cleared by Rewind", "a seekable reader failing once before the Rewind"),
    # round 7 (all twenty properties; the brief asked for interactions of two features, limits of ranges, rare fields and variants)
    "C01-m9": ("C01", "null-PID packets discarded before accumulation", "an elementary stream on the explicit PID 0x1fff"),
    "C01-m10": ("C02", "end-of-stream flush stops at the first dumped PID that yields no data (asked for C01; same slip as C02-m8)", "a CAT packet written with WritePacket, or any PID yielding nothing, below the PES PIDs"),
    "C02-m9": ("C02", "parsePSISection no longer seeks to the section end", "a table the library does not decode (TDT, BAT, ...) before a decoded one in the same unit"),
    "C02-m10": ("C02", "isUnknown excludes table id 0x6f from the EIT range", "an EIT section with table_id 0x6f: it and the sections after it are dropped"),
    "C03-m9": ("C03", "PAT programs slice pre-allocated with a capacity computed from section_length", "a PAT with section_length 1..5: negative capacity, makeslice panic"),
    "C03-m10": ("C03", "isPSIComplete fast path reads the first payload byte without checking there is one", "a packet flagged with payload but carrying none, first in its accumulator on PID 0 or a PMT PID"),
    "C04-m9": ("C04", "adaptation extension byte counts for LTW (2) and piecewise rate (3) swapped", "an extension with exactly one of the two"),
    "C04-m10": ("C04", "calcPacketAdaptationFieldLength returns a non-zero Length as it is", "an adaptation field struct whose derived Length is stale, with stuffing added by WriteData"),
    "C05-m9": ("C05", "one-byte stuffing adaptation field counted as 2 bytes", "a unit whose last packet has exactly one spare byte: counter consumed, packet refused"),
    "C05-m10": ("C05", "duplicate-PID check only looks at the last stream of the list", "a redundant Add of an older stream's PID: its context (counter) is replaced"),
    "C06-m9": ("C06", "duplicate test skipped for packets with zero payload bytes", "a duplicate of a packet flagged with payload whose adaptation field leaves no payload byte, inside a unit"),
    "C06-m10": ("C06", "continuity gap computed without the +16 correction", "a lost run containing the packet with counter 15"),
    "C07-m9": ("C20", "PAT programme 0 (network PID) enters the programme map (asked for C07; whether a demuxer follows network_PID is not fixed by the properties, what breaks is Rewind - same slip as C20-m6)", "a PAT with a programme-0 entry naming a PID of its own"),
    "C07-m10": ("C07", "ISO 639 descriptor Language parsed without copy (output of one PID overwritten by units of another)", "a PMT with a language descriptor kept while other PIDs' units are parsed"),
    "C08-m9": ("C08", "bufio fast path peeks a whole packet", "explicit packet size and a bufio.Reader whose buffer is smaller than the packet"),
    "C08-m10": ("C08", "detection window taken from a pool without clearing it", "an input of 188..192 bytes after a stream of another record size was detected in the process"),
    "C09-m9": ("C13", "parsePSISection moves to offsetSectionsEnd + 4 (asked for C09: no corrupted table gets through; a valid table after a CRC-less one is not decoded - C13's subject, close to C13-m4)", "TDT then TOT, BAT then SDT in one unit"),
    "C09-m10": ("C02", "isPSIComplete: > instead of >= (asked for C09; same slip as C13-m8)", "a PAT/PMT unit filling its packets exactly"),
    "C10-m9": ("C10", "checksum callback installed only when section_syntax_indicator is set", "a PAT/PMT section struct written with SectionSyntaxIndicator false"),
    "C10-m10": ("C10", "slicing-by-4 fast path skips len%4 leading bytes", "a piece of >= 128 bytes whose length is not a multiple of 4"),
    "C11-m9": ("C19", "skipped packet's struct reused without resetting the adaptation field (asked for C11; needs a PacketSkipper - C19's subject, same slip as C19-m7)", "a skipped packet with an adaptation field followed by a kept one without"),
    "C11-m10": ("C11", "extension body read only when its length is > 1", "adaptation extension with none of its optional parts (length 1)"),
    "C12-m9": ("C12", "ClockReference.Duration through float64 seconds", "bases that are multiples of 9: 1 ns short"),
    "C12-m10": ("C12", "extension-2 parsing nested inside the P-STD block", "PES extension with extension 2 but no P-STD buffer"),
    "C13-m9": ("C13", "parseDescriptors drops a zero-length descriptor that closes a loop", "an empty descriptor in the last position of a loop"),
    "C13-m10": ("C17", "generatePMT reuses the cached PMT packet until a stream is added or removed (asked for C13; the stale PCR PID is C17's 'always current')", "SetPCRPID between two emissions without Add/Remove"),
    "C14-m9": ("C14", "supplementary audio private data only counted when there is a language code", "extension descriptor 0x7f/0x06 without language code and with private data"),
    "C14-m10": ("C14", "writeDescriptor returns before writing tag and length when the body is empty", "any descriptor with an empty body"),
    "C15-m9": ("C15", "writeDVBTime leap test year%4 == 0", "dates of 1900 (MJD 15079..15384)"),
    "C15-m10": ("C15", "parseDVBTime treats MJD 0xffff as the undefined time", "the last MJD, 65535"),
    "C16-m9": ("C16", "pooled buffer of capacity exactly 65536 both put back and aliased by PES.Data", "a unit of 56..64 KiB, then any later PES"),
    "C16-m10": ("C16", "isPSIComplete puts the pooled buffer back twice when a section header is cut by the packet end", "pointer_field 181/182 on a PAT/PMT PID and >= 2 demuxers at work"),
    "C17-m9": ("C17", "PMT PID test moved out of the skip loop of automatic PID assignment", "automatic counter at 0x1000 and an explicit stream on 0x1001"),
    "C17-m10": ("C17", "PMT version counter created with a 4-bit mask", ">= 16 content changes each followed by an emission"),
    "C18-m9": ("C18", "PCR and OPCR writes share one error variable", "adaptation field with PCR and OPCR, writer failing once on a PCR byte"),
    "C18-m10": ("C18", "n == 0 -> ErrNoMorePackets tested before the reader's error", "auto-detection and a reader failing before delivering any byte"),
    "C19-m9": ("C19", "null-PID packets discarded before accumulation: the parser never sees their unit", "a parser installed and null packets carrying a payload"),
    "C20-m9": ("C20", "end-of-stream dump cached in a Demuxer field that Rewind does not reset", ">= 2 PIDs pending at the end and a Rewind in the middle of the end-of-stream drain"),
    "C20-m10": ("C20", "Rewind re-initialises the Demuxer from a literal that omits the skipper", "DemuxerOptPacketSkipper and any Rewind"),
    # round 8 (all twenty properties; the brief asked for slips confined to one value, one rare type or one caller of a shared helper)
    "C01-m11": ("C01", "ESCR base top bits masked with 0x3", "ESCR base >= 2^32"),
    "C01-m12": ("C01", "sequence-counter and P-STD extension flags written in swapped order", "PES extension with exactly one of the two"),
    "C02-m11": ("C02", "PES start code looked for in the first TS packet only", "a PES whose first packet carries 1 or 2 payload bytes"),
    "C02-m12": ("C02", "end-of-stream flush keeps only the first data of a dumped unit", "last pending unit of an SI PID with >= 2 sections"),
    "C03-m11": ("C03", "skipper loop of the packet buffer turned into recursion", "a long run of packets rejected by a PacketSkipper: stack grows with the run (overflow after ~3 million)"),
    "C03-m12": ("C03", "adaptation field of null packets not parsed while the payload offset still counts it", "PID 0x1fff with adaptation_field_control 11"),
    "C04-m11": ("C04", "PCR/OPCR written when the pointer is set, not when the flag is", "adaptation field struct with HasPCR/HasOPCR off and the value still present"),
    "C04-m12": ("C04", "payload_unit_start_indicator initialised from payloadStart for the adaptation-only packet too", "adaptation field leaving no room for the PES header: two unit starts"),
    "C05-m11": ("C05", "continuity counter OR-ed into the header without & 0x0f", "first WriteData ever on a stream, with an adaptation field leaving no room for the PES header"),
    "C05-m12": ("C05", "esContexts kept in a slice; removal written append(s[:i], s[i:]...)", "Remove of a stream that is not the last, then writes on a later one"),
    "C06-m11": ("C06", "'sent twice' flag not cleared when a packet is appended", "two duplicated packets inside one multi-packet unit"),
    "C06-m12": ("C06", "discontinuity path hands the queue's slice to a pool and keeps appending to it", "a loss whose first surviving packet is not a unit start, with another PID starting a unit in between"),
    "C07-m12": ("C07", "single-packet fast path of the shared payload-assembly helper aliases the queued packet's payload", "first packet of a multi-packet PAT/PMT section overwritten by another PID's small unit"),
    "C08-m11": ("C08", "re-buffering threshold for small bufio readers compares with 188 instead of 193", "bufio.Reader with a buffer of 188..192 bytes and auto-detection"),
    "C08-m12": ("C08", "second sync byte looked for in the order 188, 192, 189, 190, 191", "189..191-byte packets with a 0x47 at offset 192"),
    "C09-m11": ("C09", "isUnknown: >= at the upper EIT bound", "EIT table_id 0x6f: never delivered, corruption into 0x6f yields nothing instead of an error"),
    "C09-m12": ("C09", "enhanced AC-3 length helper is passed HasMainID twice", "enhanced AC-3 descriptor with HasMainID != HasASVC"),
    "C10-m11": ("C10", "slicing-by-4 fast path of updateCRC32 starts from the initial value", "a non-first piece of >= 16 bytes"),
    "C10-m12": ("C16", "running section checksum moved to a package-level variable (asked for C10: sequential use is unchanged; two Muxers writing tables at the same time corrupt each other's CRC - C16's subject)", "concurrent WriteTables on different Muxers"),
    "C11-m11": ("C11", "writePTSOrDTS masks its 4-bit prefix with 0x3 (right for PES, wrong for the seamless splice caller)", "seamless splice with splice_type >= 4"),
    "C11-m12": ("C11", "OPCR block parsed before the PCR block", "adaptation field with PCR and OPCR of different values"),
    "C12-m11": ("C12", "PTS/DTS presence tested bit by bit", "the forbidden PTS_DTS_flags value '01': 5 bytes eaten as a DTS"),
    "C12-m12": ("C12", "ES_rate mask 0x1fffff", "ES rate >= 2^21"),
    "C13-m11": ("C13", "hasCRC32: < at the upper EIT bound", "EIT table_id 0x6f"),
    "C13-m12": ("C13", "programme-0 filter moved into parsePATSection", "a PAT with a program_number 0 entry: entry missing from the delivered PAT"),
    "C14-m11": ("C14", "calcDescriptorLength trusts a non-zero Length", "Descriptor.Length non-zero and wrong"),
    "C14-m12": ("C14", "extended event items length assigned instead of accumulated", "extended event descriptor with >= 2 items"),
    "C15-m11": ("C15", "tens digit computed as (n*26)>>8", "durations with 69, 79, 89 or 99 hours"),
    "C15-m12": ("C15", "range check for the time of day added to the helper shared with durations", "EIT durations of 24 hours or more"),
    "C16-m11": ("C16", "PES.Data returned as a view of the pooled payload when the first packet carries 0..2 payload bytes", "a PES whose start code is cut by the packet boundary, kept while other payloads are parsed"),
    "C16-m12": ("C16", "payload of transport-error packets taken without copy", "a TEI packet with payload returned by NextPacket and kept across the next read"),
    "C17-m11": ("C17", "SetPCRPID assigns pmtUpdated = (pid changed), clearing a pending flag", "Add/Remove then SetPCRPID(unchanged PID) between two emissions: version does not move"),
    "C17-m12": ("C17", "RemoveElementaryStream rewinds the automatic PID counter to the freed PID", "Add(explicit PID below 0x20), Remove, Add(automatic): automatic PID in the reserved range"),
    "C18-m11": ("C18", "writePTSOrDTS never sets its error result", "seamless splice DTS bytes written straight to a failing writer"),
    "C18-m12": ("C18", "NextData formats the reader's error with %v", "any reader failure seen through NextData"),
    "C19-m11": ("C19", "adaptation field private data read without copy", "a kept packet with private data followed by skipped packets"),
    "C19-m12": ("C19", "IsOneByteStuffing set after the skipper was consulted", "a packet with adaptation_field_length 0 and a predicate (or call log) looking at that field"),
    "C20-m11": ("C20", "isPSIComplete: > instead of >= (with the programme map kept by Rewind)", "a PAT filling its packet exactly, a PMT after it, Rewind after >= 1 NextData"),
    "C20-m12": ("C20", "Rewind skipped when nothing was demuxed since the last one, flag cleared by NextData only", "two Rewinds with only NextPacket calls in between"),
    # round 9 (six properties, a fresh session; same brief as the task statement: something specific needed to manifest)
    "C06-m13": ("C06", "isSameAsPrevious compares payload lengths instead of bytes (independent rediscovery of C06-m2)", "exactly 15 lost packets with equal payload lengths on both sides of the gap, continuation packets after it: spliced unit"),
    "C07-m13": ("C07", "NextData end-of-stream flush rewritten as a for-clause loop: break instead of continue on a parse error (independent rediscovery of C07-m1)", "stream ending with an unparseable pending unit on a lower PID and a valid pending unit on a higher PID"),
    "C09-m13": ("C09", "parsePSISection checks the CRC_32 only when section_syntax_indicator is set", "a corrupted TOT with section_syntax_indicator 0 (as EN 300 468 prescribes), or a corruption clearing that bit in another table"),
    "C13-m13": ("C13", "hasCRC32: t <= PSITableIDEITEnd became t <", "an EIT with table_id 0x6f (last schedule variant): the CRC bytes are read as an event"),
    "C16-m13": ("C16", "adaptation field transport_private_data read with NextBytesNoCopy (aliases the packet read buffer)", "a returned packet with non-empty private data and at least one later packet read on the same Demuxer"),
    "C19-m13": ("C19", "parsePacket consults the PacketSkipper only inside the HasPayload branch", "adaptation-only packets selected by the predicate, observed through NextPacket"),
    # round 10 (the other eight properties with a packet-, PES- or muxer-level subject; same brief as round 9)
    "C02-m13": ("C02", "isPSIComplete: Len >= Offset became Offset < Len (independent rediscovery of C02-m1)", "a PAT/PMT section ending on the last payload byte of its packet, or followed by exactly one 0xFF"),
    "C03-m13": ("C03", "newPacketBuffer re-wraps a small bufio.Reader only when its buffer is below 188 bytes instead of below the 193-byte detection window (partial revert of F13)", "auto-detection on a caller's bufio.Reader whose buffer is 188..192 bytes: bufio.ErrBufferFull on every call, ErrNoMorePackets never reached"),
    "C05-m13": ("C05", "WriteTables: one rollback closure split into per-table snapshots, a PMT failure restores only PMT state", "a WriteTables failing at the PMT step (ErrPCRPIDInvalid) after an earlier emission, followed by a successful one: PAT counter gap"),
    "C08-m13": ("C08", "auto-detect resync length uses 188 instead of the detected size (independent rediscovery of C08-m1)", "auto-detection on a non-seekable non-bufio reader with 189..192-byte packets"),
    "C11-m13": ("C11", "ltw_offset parsed with mask 0x3f instead of 0x7f on its first byte", "an adaptation field extension with ltw_flag and ltw_offset >= 0x4000"),
    "C12-m13": ("C12", "parseESCR masks the first byte's base bits with 0x3 instead of 0x7", "a PES header carrying an ESCR whose base is >= 2^32"),
    "C14-m13": ("C14", "calcDescriptorVBIDataLength: the list of data_service_ids replaced by the range 1..7 (includes the reserved id 3), writer keeps the list", "a VBI data descriptor with a service of data_service_id 3: descriptor_length and enclosing loop lengths disagree with the bytes written"),
    "C17-m13": ("C17", "RemoveElementaryStream invalidates the PMT before looking the PID up", "a RemoveElementaryStream of an unknown PID (ErrPIDNotFound) between two table emissions: version_number bumps with unchanged content"),
}
REVERTS = {
    "R01": "C12", "R02": "C14", "R03": "C14", "R04": "C18", "R05": "C17", "R06": "C04", "R07": "C11", "R08": "C05", "R09": "C06", "R13": "C08", "R14": "C04",
    "R10": "C05", "R11": "C03", "R12": "C05",
}


def main():
    log = os.path.join(ROOT, "seeded", "matrix.log")
    caught, missed = {}, {}
    if os.path.exists(log):
        for l in open(log):
            m = re.match(r"seeded/(\S+) (CAUGHT|MISSED|INFRA\(\d+\)) (C\d+)", l)
            if not m:
                continue
            sid, verdict, cid = m.groups()
            (caught if verdict == "CAUGHT" else missed).setdefault(sid, []).append(cid)
    rows = []
    for d in sorted(os.listdir(os.path.join(ROOT, "seeded"))):
        p = os.path.join(ROOT, "seeded", d)
        if not os.path.isfile(os.path.join(p, "patch.diff")):
            continue
        key = d
        if d in INFO:
            prop, change, needs = INFO[d]
            origin = "independent sub-agent given only the property text and a scratch worktree"
        else:
            prop = REVERTS.get(d[:3], "?")
            subj = subprocess.run(["git", "-C", "/repo", "log", "-1", "--format=%s", d[4:]], stdout=subprocess.PIPE, text=True).stdout.strip()
            change, needs = "revert of /repo commit %s (%s)" % (d[4:], subj), "see the commit message"
            origin = "revert of a fix commit"
        meta = {
            "id": d, "breaks_property": prop, "change": change, "needs_to_manifest": needs, "origin": origin,
            "confirmed": "tools/verify_seeded.sh: suite passes with the patch, demo fails with it and passes without it (scratch copy of /repo)" if d in INFO else "applies on HEAD; caught by the check of its property",
            "ran": ["tools/verify_seeded.sh seeded/%s" % d if d in INFO else "", "tools/try_patch.sh seeded/%s/patch.diff <all checks> quick" % d],
            "caught_by": sorted(set(caught.get(d, []))), "not_caught_by": sorted(set(missed.get(d, []))),
        }
        json.dump(meta, open(os.path.join(p, "meta.json"), "w"), indent=1)
        rows.append(meta)
    with open(os.path.join(ROOT, "seeded", "MATRIX.md"), "w") as f:
        f.write("# Seeded changes x checks (quick tier, default seed)\n\n| seeded change | property | what it needs | caught by |\n|---|---|---|---|\n")
        for r in rows:
            own = r["breaks_property"] in r["caught_by"]
            f.write("| %s | %s | %s | %s%s |\n" % (r["id"], r["breaks_property"], r["needs_to_manifest"], " ".join(r["caught_by"]) or "-", "" if own or not r["caught_by"] and not r["not_caught_by"] else "  **(own property's check missed it)**"))
    n_own = sum(1 for r in rows if r["breaks_property"] in r["caught_by"])
    print("seeded changes: %d, caught by the check of their own property: %d" % (len(rows), n_own))
    for r in rows:
        if r["breaks_property"] not in r["caught_by"]:
            print("  not caught by own check:", r["id"], "caught by", r["caught_by"])


if __name__ == "__main__":
    main()
