#!/usr/bin/env python3
"""Driver for the go-astits property checks.

  driver.py <ID> quick|thorough         run a property's check, write evidence/<ID>.json
  driver.py <ID> --replay <path>        re-run one saved failing case
  driver.py --build                     build the test binaries (setup)
  driver.py --selftest                  reference-codec self tests (setup)

Exit codes: 0 held / 1 violation (prints VIOLATION lines) / 2 infrastructure problem (inconclusive).
"""
import array
import glob
import hashlib
import json
import os
import re
import shutil
import subprocess
import sys
import time

ROOT = os.path.dirname(os.path.dirname(os.path.abspath(__file__)))
HARNESS = os.path.join(ROOT, "harness")
BUILD = os.path.join(ROOT, ".build")
# sensitivity runs against scratch copies write their evidence/replays elsewhere (VERIF_OUTROOT), never into /verif
OUTROOT = os.environ.get("VERIF_OUTROOT", ROOT)
sys.path.insert(0, os.path.join(ROOT, "tools"))
from config import PROPS  # noqa: E402

NCPU = os.cpu_count() or 4


def goenv():
    env = dict(os.environ)
    env.update({
        "GOFLAGS": "-mod=mod", "GOPROXY": "off", "GOSUMDB": "off", "GOTOOLCHAIN": "local",
        "VERIF_ROOT": ROOT,
    })
    env.setdefault("GOCACHE", os.path.join(os.path.expanduser("~"), ".cache", "go-build"))
    return env


def repo_dir():
    return os.environ.get("VERIF_REPO", "/repo")


def modfile_args():
    """For sensitivity runs only: VERIF_REPO=<dir> builds against a scratch copy through an alternate modfile."""
    r = os.environ.get("VERIF_REPO")
    if not r:
        return []
    os.makedirs(BUILD, exist_ok=True)
    tag = hashlib.sha1(r.encode()).hexdigest()[:10]
    mf = os.path.join(BUILD, "alt-%s.mod" % tag)
    src = open(os.path.join(HARNESS, "go.mod")).read()
    src = src.replace("=> /repo", "=> " + r)
    open(mf, "w").write(src)
    shutil.copy(os.path.join(HARNESS, "go.sum"), mf[:-4] + ".sum")
    return ["-modfile=" + mf]


def build(race=False, quiet=True):
    os.makedirs(BUILD, exist_ok=True)
    tag = ""
    if os.environ.get("VERIF_REPO"):
        tag = "." + hashlib.sha1(os.environ["VERIF_REPO"].encode()).hexdigest()[:10]
    out = os.path.join(BUILD, "checks%s%s.test" % (tag, ".race" if race else ""))
    cmd = ["go", "test", "-c", "-tags", "verif", "-vet=off", "-o", out] + modfile_args()
    if race:
        cmd.append("-race")
    cmd.append("./checks")
    p = subprocess.run(cmd, cwd=HARNESS, env=goenv(), stdout=subprocess.PIPE, stderr=subprocess.STDOUT, text=True)
    if p.returncode != 0:
        sys.stderr.write("BUILD FAILED (%s):\n%s\n" % (" ".join(cmd), p.stdout))
        return None
    return out


def rapid_seed(verif_seed, unit_idx, shard):
    return 1 + ((verif_seed * 1000003 + unit_idx * 7919 + shard) % (2 ** 31 - 2))


def run_units(pid, tier, seed):
    prop = PROPS[pid]
    t0 = time.time()
    rundir = os.path.join(BUILD, "run-%s-%s-%d" % (pid, tier, os.getpid()))
    shutil.rmtree(rundir, ignore_errors=True)
    os.makedirs(rundir)
    outdir = os.path.join(rundir, "out")
    os.makedirs(outdir)

    need_race = any(u.get("race") for u in prop["units"] if tier in u)
    need_plain = any(not u.get("race") for u in prop["units"] if tier in u)
    bins = {}
    if need_plain:
        bins[False] = build(False)
        if not bins[False]:
            return 2
    if need_race:
        bins[True] = build(True)
        if not bins[True]:
            return 2

    jobs = []  # (unit, shard, Popen, logpath, cwd, kind)
    pending = []
    for ui, u in enumerate(prop["units"]):
        cfg = u.get(tier)
        if not cfg:
            continue
        if u.get("fuzz"):
            pending.append(("fuzz", ui, u, cfg, 0))
            continue
        for k in range(cfg.get("shards", 1)):
            pending.append(("test", ui, u, cfg, k))

    maxpar = NCPU
    infra = False
    violations = []  # (unit name, replay path)
    results = []

    def launch(item):
        kind, ui, u, cfg, k = item
        cwd = os.path.join(rundir, "%s.%d" % (u["name"], k))
        os.makedirs(cwd, exist_ok=True)
        env = goenv()
        env.update({"VERIF_TIER": tier, "VERIF_SEED": str(seed), "VERIF_SHARD": str(k),
                    "VERIF_NSHARDS": str(cfg.get("shards", 1)), "VERIF_OUT": outdir, "VERIF_PROPERTY": pid})
        for kk, vv in cfg.get("env", {}).items():
            env[kk] = str(vv)
        log = os.path.join(cwd, "log.txt")
        if kind == "fuzz":
            # native fuzzing: must go through `go test` in the package directory
            corpus = os.path.join(HARNESS, "checks", "testdata", "fuzz", u["fuzz"])
            before = set(os.listdir(corpus)) if os.path.isdir(corpus) else set()
            cmd = ["go", "test", "-tags", "verif", "-vet=off", "-run", "^$", "-fuzz", "^%s$" % u["fuzz"],
                   "-fuzztime", cfg["fuzztime"], "-parallel", str(cfg.get("workers", NCPU))] + modfile_args() + ["./checks"]
            p = subprocess.Popen(cmd, cwd=HARNESS, env=env, stdout=open(log, "w"), stderr=subprocess.STDOUT)
            return dict(kind=kind, ui=ui, u=u, cfg=cfg, k=k, p=p, log=log, cwd=cwd, start=time.time(), before=before, corpus=corpus)
        cmd = [bins[bool(u.get("race"))], "-test.run", u["run"], "-test.timeout", "0", "-test.count", "1"]
        if u.get("rapid", True):
            cmd += ["-rapid.checks=%d" % cfg["checks"], "-rapid.seed=%d" % rapid_seed(seed, ui, k),
                    "-rapid.shrinktime=%s" % cfg.get("shrinktime", "20s")]
            if "steps" in cfg:
                cmd += ["-rapid.steps=%d" % cfg["steps"]]
        p = subprocess.Popen(cmd, cwd=cwd, env=env, stdout=open(log, "w"), stderr=subprocess.STDOUT)
        return dict(kind=kind, ui=ui, u=u, cfg=cfg, k=k, p=p, log=log, cwd=cwd, start=time.time(), cmd=cmd)

    running = []
    while pending or running:
        while pending and len(running) < maxpar:
            it = pending.pop(0)
            if it[0] == "fuzz" and running:
                # fuzzing uses all cores: run it alone
                if any(True for _ in running):
                    pending.append(it)
                    if all(x[0] == "fuzz" for x in pending):
                        break
                    continue
            running.append(launch(it))
            if it[0] == "fuzz":
                break
        time.sleep(0.05)
        still = []
        for j in running:
            rc = j["p"].poll()
            limit = j["cfg"].get("timeout", 600 if tier == "quick" else 5400)
            if rc is None:
                if time.time() - j["start"] > limit:
                    j["p"].kill()
                    j["p"].wait()
                    sys.stderr.write("TIMEOUT unit=%s shard=%d after %ds (inconclusive)\n" % (j["u"]["name"], j["k"], limit))
                    infra = True
                    continue
                still.append(j)
                continue
            j["rc"] = rc
            j["wall"] = time.time() - j["start"]
            results.append(j)
        running = still

    known_lines = set()
    for j in results:
        text = open(j["log"], errors="replace").read()
        for line in text.splitlines():
            if line.startswith("KNOWN-FINDING:"):
                known_lines.add(line.strip())
        if j["rc"] == 0:
            if j["kind"] == "test" and j["u"].get("rapid", True):
                # every rapid.Check must have run its full count
                for m in re.finditer(r"\[rapid\] OK, passed (\d+) tests", text):
                    pass
            continue
        failed = re.findall(r"^\s*--- FAIL: (\S+)", text, flags=re.M)
        is_violation = bool(failed) or (j["kind"] == "fuzz" and "Failing input written to" in text)
        if failed and "[rapid] only generated" in text and "[rapid] failed after" not in text and "[rapid] panic after" not in text \
                and "flaky test" not in text:
            # the generator skipped too many cases: a generator problem, never a property violation
            sys.stderr.write("INCONCLUSIVE unit=%s shard=%d: rapid could not generate enough valid cases\n" % (j["u"]["name"], j["k"]))
            infra = True
            continue
        if not is_violation:
            sys.stderr.write("INFRASTRUCTURE failure unit=%s shard=%d rc=%d, log tail:\n%s\n" % (
                j["u"]["name"], j["k"], j["rc"], text[-3000:]))
            infra = True
            continue
        # save replay material
        rdir = os.path.join(OUTROOT, "replays", pid)
        os.makedirs(rdir, exist_ok=True)
        stamp = "%s-%s-s%d-k%d" % (j["u"]["name"], tier, seed, j["k"])
        logcopy = os.path.join(rdir, stamp + ".log")
        shutil.copy(j["log"], logcopy)
        meta = {"property": pid, "unit": j["u"]["name"], "tier": tier, "seed": seed, "shard": j["k"],
                "failed_tests": failed, "log": logcopy, "race": bool(j["u"].get("race")),
                "env": j["cfg"].get("env", {}), "nshards": j["cfg"].get("shards", 1)}
        if j["kind"] == "fuzz":
            after = set(os.listdir(j["corpus"])) if os.path.isdir(j["corpus"]) else set()
            new = sorted(after - j["before"])
            saved = []
            for f in new:
                dst = os.path.join(rdir, stamp + "." + f + ".fuzzinput")
                shutil.move(os.path.join(j["corpus"], f), dst)
                saved.append(dst)
            meta.update({"kind": "fuzz", "fuzz": j["u"]["fuzz"], "inputs": saved})
        else:
            fails = glob.glob(os.path.join(j["cwd"], "testdata", "rapid", "**", "*.fail"), recursive=True)
            saved = []
            for f in fails:
                tname = os.path.basename(os.path.dirname(f))
                dst = os.path.join(rdir, stamp + "." + os.path.basename(f))
                shutil.copy(f, dst)
                saved.append({"failfile": dst, "rapid_test_dir": tname})
            meta.update({"kind": "rapid" if saved else "deterministic", "failfiles": saved,
                         "run": j["u"]["run"], "cmd": j.get("cmd")})
        mpath = os.path.join(rdir, stamp + ".json")
        json.dump(meta, open(mpath, "w"), indent=1)
        violations.append((j["u"]["name"], mpath, failed, text))

    for line in sorted(known_lines):
        print(line)

    write_evidence(pid, tier, seed, outdir, results, violations, time.time() - t0, infra)

    for name, mpath, failed, text in violations:
        # print a digest of the failure for the human
        m = re.search(r"(\[rapid\] (failed|panic).*?)(?=\n\s*--- FAIL|\Z)", text, flags=re.S)
        digest = (m.group(1) if m else text[-2500:])
        cut = digest.find("Failed test output:")
        if cut > 0:
            digest = digest[:cut]
        sys.stderr.write("---- %s (%s) ----\n%s\n" % (name, ",".join(failed), digest[:4000]))
        print("VIOLATION property=%s replay=%s" % (pid, mpath))
    if not violations and not infra:
        shutil.rmtree(rundir, ignore_errors=True)
    if violations:
        shutil.rmtree(rundir, ignore_errors=True)
        return 1
    if infra:
        return 2
    return 0


def write_evidence(pid, tier, seed, outdir, results, violations, wall, infra):
    prop = PROPS[pid]
    units = {}
    for f in sorted(glob.glob(os.path.join(outdir, "*.json"))):
        try:
            sf = json.load(open(f))
        except Exception:
            continue
        if sf.get("property") != pid:
            continue
        u = units.setdefault(sf["unit"], {"evaluations": 0, "sigs": set(), "samples": [], "classes": {}, "excluded": {},
                                          "known": {}, "rule": sf.get("rule", ""), "exhaustive": None, "notes": [],
                                          "assumptions": [], "shards": 0, "wall_s": 0.0, "enumerated": 0})
        u["evaluations"] += sf.get("evaluations", 0)
        u["shards"] += 1
        u["enumerated"] += sf.get("enumerated", 0)
        u["wall_s"] = max(u["wall_s"], sf.get("wall_s", 0.0))
        try:
            a = array.array("Q")
            data = open(sf["sigs_file"], "rb").read()
            a.frombytes(data)
            u["sigs"].update(a.tolist())
        except Exception:
            pass
        for s in sf.get("samples") or []:
            if len(u["samples"]) < 3:
                u["samples"].append(s)
        for key in ("classes", "excluded", "known"):
            for k, v in (sf.get(key) or {}).items():
                u[key][k] = u[key].get(k, 0) + v
        if sf.get("exhaustive") is not None:
            u["exhaustive"] = sf["exhaustive"] if u["exhaustive"] is None else (u["exhaustive"] and sf["exhaustive"])
        for n in sf.get("notes") or []:
            if n not in u["notes"]:
                u["notes"].append(n)
        for n in sf.get("assumptions") or []:
            if n not in u["assumptions"]:
                u["assumptions"].append(n)
    # native fuzz units: parse execs from logs
    for j in results:
        if j["kind"] != "fuzz":
            continue
        text = open(j["log"], errors="replace").read()
        execs = [int(x) for x in re.findall(r"execs: (\d+)", text)]
        interesting = [int(x) for x in re.findall(r"new interesting: (\d+)", text)]
        total = [int(x) for x in re.findall(r"new interesting: \d+ \(total: (\d+)\)", text)]
        units[j["u"]["name"]] = {"evaluations": max(execs) if execs else 0, "sigs": set(), "samples": [], "classes": {
            "new_interesting_inputs": max(interesting) if interesting else 0, "corpus_total": max(total) if total else 0},
            "excluded": {}, "known": {}, "rule": "native go fuzzing (coverage guided) of %s for %s; evaluations = executions; "
            "not counted in distinct_nontrivial" % (j["u"]["fuzz"], j["cfg"]["fuzztime"]), "exhaustive": None, "notes": [],
            "assumptions": [], "shards": 1, "wall_s": j.get("wall", 0.0)}

    evaluations = sum(u["evaluations"] for u in units.values())
    distinct = sum(len(u["sigs"]) + u.get("enumerated", 0) for u in units.values())
    samples = []
    for name, u in units.items():
        for s in u["samples"][:2]:
            samples.append({"unit": name, "case": s})
    unit_reports = []
    assumptions = list(prop.get("assumptions", []))
    exhaustive_all = None
    for name, u in sorted(units.items()):
        unit_reports.append({"unit": name, "evaluations": u["evaluations"], "distinct_nontrivial": len(u["sigs"]) + u.get("enumerated", 0),
                             "rule": u["rule"], "classes": u["classes"], "excluded_by_construction": u["excluded"],
                             "known_findings_hit": u["known"], "exhaustive": u["exhaustive"], "notes": u["notes"],
                             "shards": u["shards"], "wall_s": round(u["wall_s"], 2)})
        for a in u["assumptions"]:
            if a not in assumptions:
                assumptions.append(a)
    ex = [u["exhaustive"] for u in units.values() if u["exhaustive"] is not None]
    coverage = {
        "evaluations": int(evaluations),
        "distinct_nontrivial": int(distinct),
        "rule": prop["rule"],
        "samples": samples if samples else [],
        "units": unit_reports,
        "planned_units": [u["name"] for u in prop["units"] if tier in u],
    }
    if ex:
        coverage["exhaustive"] = bool(all(ex)) and len(ex) == len(units)
        coverage["exhaustive_units"] = [n for n, u in units.items() if u["exhaustive"]]
    ev = {
        "property_id": pid,
        "tier": tier,
        "seed": int(seed),
        "level": prop["level"],
        "coverage": coverage,
        "assumptions": assumptions,
        "wall_s": round(wall, 2),
        "violations": len(violations),
    }
    if infra:
        ev["coverage"]["inconclusive"] = True
    os.makedirs(os.path.join(OUTROOT, "evidence"), exist_ok=True)
    tmp = os.path.join(OUTROOT, "evidence", pid + ".json.tmp")
    json.dump(ev, open(tmp, "w"), indent=1, default=str)
    os.replace(tmp, os.path.join(OUTROOT, "evidence", pid + ".json"))


def replay(pid, path):
    meta = json.load(open(path))
    if meta.get("kind") == "fuzz":
        # copy the inputs back as seed corpus entries and run the fuzz target as a plain test
        corpus = os.path.join(HARNESS, "checks", "testdata", "fuzz", meta["fuzz"])
        os.makedirs(corpus, exist_ok=True)
        placed = []
        for f in meta["inputs"]:
            dst = os.path.join(corpus, "replay-" + os.path.basename(f))
            shutil.copy(f, dst)
            placed.append(dst)
        cmd = ["go", "test", "-tags", "verif", "-vet=off", "-run", "^%s$" % meta["fuzz"]] + modfile_args() + ["./checks"]
        p = subprocess.run(cmd, cwd=HARNESS, env=goenv())
        for f in placed:
            os.remove(f)
        if p.returncode != 0:
            print("VIOLATION property=%s replay=%s" % (pid, path))
            return 1
        return 0
    binp = build(bool(meta.get("race")))
    if not binp:
        return 2
    env = goenv()
    env.update({"VERIF_TIER": meta["tier"], "VERIF_SEED": str(meta["seed"]), "VERIF_SHARD": str(meta["shard"]),
                "VERIF_NSHARDS": str(meta.get("nshards", 1)), "VERIF_PROPERTY": pid})
    for kk, vv in meta.get("env", {}).items():
        env[kk] = str(vv)
    rc = 0
    cwd = os.path.join(BUILD, "replay-%d" % os.getpid())
    os.makedirs(cwd, exist_ok=True)
    if meta.get("kind") == "rapid":
        for ff in meta["failfiles"]:
            tname = ff["rapid_test_dir"]
            # rapid names the directory after the (sub)test with / replaced by _; select by the failed test list
            cands = [t for t in meta["failed_tests"] if t.replace("/", "_") == tname] or meta["failed_tests"][-1:]
            run = "^" + "$/^".join(re.escape(x) for x in cands[0].split("/")) + "$"
            cmd = [binp, "-test.run", run, "-test.timeout", "0", "-rapid.failfile=" + ff["failfile"], "-rapid.nofailfile"]
            p = subprocess.run(cmd, cwd=cwd, env=env)
            if p.returncode != 0:
                rc = 1
    else:
        cmd = [binp, "-test.run", meta["run"], "-test.timeout", "0"]
        p = subprocess.run(cmd, cwd=cwd, env=env)
        if p.returncode != 0:
            rc = 1
    shutil.rmtree(cwd, ignore_errors=True)
    if rc:
        print("VIOLATION property=%s replay=%s" % (pid, path))
    return rc


def main():
    a = sys.argv[1:]
    if not a:
        print(__doc__)
        return 2
    if a[0] == "--build":
        ok = build(False) and build(True)
        return 0 if ok else 2
    if a[0] == "--selftest":
        binp = build(False)
        if not binp:
            return 2
        p = subprocess.run([binp, "-test.run", "^TestRef", "-test.timeout", "10m"], cwd=BUILD, env=goenv())
        return 0 if p.returncode == 0 else 2
    pid = a[0]
    if pid not in PROPS:
        sys.stderr.write("unknown property %s\n" % pid)
        return 2
    if len(a) >= 3 and a[1] == "--replay":
        return replay(pid, a[2])
    tier = a[1] if len(a) > 1 else os.environ.get("VERIF_TIER", "quick")
    if tier not in ("quick", "thorough"):
        sys.stderr.write("tier must be quick or thorough\n")
        return 2
    try:
        seed = int(os.environ.get("VERIF_SEED", "20260926"))
    except ValueError:
        seed = 20260926
    return run_units(pid, tier, seed)


if __name__ == "__main__":
    sys.exit(main())
