#!/bin/bash
# tools/verify_seeded.sh <dir with patch.diff + demo_test.go>  — confirm, in a scratch copy of /repo (never /repo itself):
#  (1) the library's suite passes with the patch, (2) the demo fails with the patch, (3) the demo passes without it.
set -u
d=$(readlink -f "$1")
export GOFLAGS=-mod=mod GOPROXY=off GOSUMDB=off GOTOOLCHAIN=local
s=$(mktemp -d /tmp/vseed.XXXXXX)
rsync -a --exclude .git /repo/ "$s/"
tags=""
grep -q -E "go:build verif|astits\.Verif" "$d/demo_test.go" && tags="-tags verif"
cp "$d/demo_test.go" "$s/zz_demo_test.go"
(cd "$s" && go test $tags -vet=off -count=1 -run 'Test' . > "$s/clean.log" 2>&1); clean=$?
if ! (cd "$s" && patch -s -p1 < "$d/patch.diff"); then echo "PATCH-FAILED $d"; rm -rf "$s"; exit 3; fi
(cd "$s" && go test $tags -vet=off -count=1 . > "$s/demo.log" 2>&1); demo=$?
rm "$s/zz_demo_test.go"
(cd "$s" && go test -vet=off -count=1 ./... > "$s/suite.log" 2>&1); suite=$?
echo "$(basename $(dirname $d))/$(basename $d): demo_without_patch=$([ $clean -eq 0 ] && echo PASS || echo FAIL) demo_with_patch=$([ $demo -ne 0 ] && echo FAIL || echo PASS) suite_with_patch=$([ $suite -eq 0 ] && echo PASS || echo FAIL)"
rc=0; [ $clean -eq 0 ] && [ $demo -ne 0 ] && [ $suite -eq 0 ] || rc=1
rm -rf "$s"
exit $rc
