#!/bin/bash
# background chain (vp run): catch matrix for the round-2 seeded changes, C18 column for all, then thorough timing
cd "$(dirname "$0")/.."
ALL=C01,C02,C03,C04,C05,C06,C07,C08,C09,C10,C11,C12,C13,C14,C15,C16,C17,C18,C19,C20
ls -d seeded/C*-m[34] | xargs -P 3 -I{} sh -c "tools/try_patch.sh {}/patch.diff $ALL 2>&1 | sed 's|^|{} |'" > matrix2.log
ls -d seeded/*/ | sed 's|/$||' | xargs -P 4 -I{} sh -c "tools/try_patch.sh {}/patch.diff C18 2>&1 | sed 's|^|{} |'" > matrix_c18.log
echo MATRIX-DONE
tools/bg_thorough.sh
