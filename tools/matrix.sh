#!/bin/bash
# tools/matrix.sh [ids]  (ONLY="seeded/C03-m3 seeded/C03-m4" restricts the changes) — run every seeded change against the given checks (default: all) and append CAUGHT/MISSED lines to seeded/matrix.log
cd "$(dirname "$0")/.."
ids=${1:-C01,C02,C03,C04,C05,C06,C07,C08,C09,C10,C11,C12,C13,C14,C15,C16,C17,C18,C19,C20}
{ if [ -n "$ONLY" ]; then printf '%s\n' $ONLY; else ls -d seeded/*/ | sed 's|/$||' | grep -v mutation_campaign; fi; } | xargs -P ${PAR:-3} -I{} sh -c "tools/try_patch.sh {}/patch.diff $ids 2>&1 | sed 's|^|{} |'" >> seeded/matrix.log
